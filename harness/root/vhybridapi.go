package theine_test

// C15 through the public builders (builder.go / cache.go): every other hybrid harness builds the store with
// internal.NewStore and never passes through Hybrid() / Loading() / AdmProbability(). Hybrid caches are built
// along every path the builders offer, filled well beyond MaxSize at a pace the two workers keep up with (the
// hand-off queue holds 256 entries), left to settle, and read again. HybridApi.tla judges the counts: what is
// not resident must have reached the secondary store, and a later Get finds every key without loading it again.

import (
	"bufio"
	"context"
	"encoding/json"
	"os"
	"path/filepath"
	"sync"
	"sync/atomic"
	"testing"
	"time"

	"github.com/Yiling-J/theine-go"
)

type hSec struct {
	mu   sync.Mutex
	m    map[int][3]int64 // value, cost, expire
	sets atomic.Int64
	errs atomic.Int64
}

func (s *hSec) Get(key int) (int, int64, int64, bool, error) {
	s.mu.Lock()
	defer s.mu.Unlock()
	e, ok := s.m[key]
	return int(e[0]), e[1], e[2], ok, nil
}
func (s *hSec) Set(key int, value int, cost int64, expire int64) error {
	s.mu.Lock()
	s.m[key] = [3]int64{int64(value), cost, expire}
	s.mu.Unlock()
	s.sets.Add(1)
	return nil
}
func (s *hSec) Delete(key int) error {
	s.mu.Lock()
	delete(s.m, key)
	s.mu.Unlock()
	return nil
}
func (s *hSec) HandleAsyncError(err error) {
	if err != nil {
		s.errs.Add(1)
	}
}
func (s *hSec) size() int {
	s.mu.Lock()
	defer s.mu.Unlock()
	return len(s.m)
}

func TestVerif_HybridBuilders(t *testing.T) {
	out := os.Getenv("VERIF_OUT")
	if out == "" {
		t.Skip("VERIF_OUT not set")
	}
	f, err := os.Create(filepath.Join(out, "hybridapi.ndjson"))
	if err != nil {
		t.Fatal(err)
	}
	w := bufio.NewWriter(f)
	defer func() { w.Flush(); f.Close() }()
	emit := func(m map[string]any) {
		b, _ := json.Marshal(m)
		w.Write(b)
		w.WriteByte('\n')
	}
	const maxsize, nkeys = 20, 160
	for round := 0; round < 2; round++ {
		for _, path := range []string{"hybrid", "hybrid_admprob1", "hybrid_then_loading", "loading_then_hybrid"} {
			for _, ttl := range []bool{false, true} {
				sec := &hSec{m: map[int][3]int64{}}
				var loads atomic.Int64
				loader := func(ctx context.Context, k int) (theine.Loaded[int], error) {
					loads.Add(1)
					l := theine.Loaded[int]{Value: k + 1000, Cost: 1}
					if ttl {
						l.TTL = time.Hour
					}
					return l, nil
				}
				var get func(k int) (int, bool)
				var closeFn func()
				var put func(k int)
				switch path {
				case "hybrid", "hybrid_admprob1":
					b := theine.NewBuilder[int, int](maxsize).Hybrid(sec)
					if path == "hybrid_admprob1" {
						b = b.AdmProbability(1).Workers(2)
					}
					c, err := b.Build()
					if err != nil {
						t.Fatal(err)
					}
					get = func(k int) (int, bool) { v, ok, _ := c.Get(k); return v, ok }
					put = func(k int) {
						if ttl {
							c.SetWithTTL(k, k+1000, 1, time.Hour)
						} else {
							c.Set(k, k+1000, 1)
						}
					}
					closeFn = c.Close
				case "hybrid_then_loading":
					c, err := theine.NewBuilder[int, int](maxsize).Hybrid(sec).Loading(loader).Build()
					if err != nil {
						t.Fatal(err)
					}
					get = func(k int) (int, bool) { v, err := c.Get(context.Background(), k); return v, err == nil }
					put = func(k int) { c.Get(context.Background(), k) }
					closeFn = c.Close
				default:
					c, err := theine.NewBuilder[int, int](maxsize).Loading(loader).Hybrid(sec).Build()
					if err != nil {
						t.Fatal(err)
					}
					get = func(k int) (int, bool) { v, err := c.Get(context.Background(), k); return v, err == nil }
					put = func(k int) { c.Get(context.Background(), k) }
					closeFn = c.Close
				}
				for k := 1; k <= nkeys; k++ {
					put(k)
					if k%4 == 0 {
						time.Sleep(time.Millisecond) // the workers keep up: the hand-off queue never fills
					}
				}
				// settle: the secondary store stops growing
				last, stable := -1, 0
				for i := 0; i < 400 && stable < 10; i++ {
					time.Sleep(5 * time.Millisecond)
					if n := sec.size(); n == last {
						stable++
					} else {
						last, stable = n, 0
					}
				}
				insec := sec.size()
				loads1 := loads.Load()
				found, wrong := 0, 0
				for k := 1; k <= nkeys; k++ {
					v, ok := get(k)
					if ok {
						found++
						if v != k+1000 {
							wrong++
						}
					}
				}
				emit(map[string]any{"op": "hyb", "path": path, "ttl": ttl, "stored": nkeys, "maxsize": maxsize, "insec": insec,
					"found": found, "wrong": wrong, "loads_first_pass": loads1, "loads_second_pass": loads.Load() - loads1,
					"secsets": sec.sets.Load(), "secerrs": sec.errs.Load(), "loading": path == "hybrid_then_loading" || path == "loading_then_hybrid"})
				closeFn()
			}
		}
	}
}
