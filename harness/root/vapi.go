package theine_test

// Public-API harness (injected into package theine_test): sequential programs against caches built
// with the public builder (plain and loading; cost function, doorkeeper, removal listener), every
// write followed by Wait(). Calls, results, loader invocations and removal notifications are logged;
// TLC validates the trace against the sequential observer ApiTrace.tla (a map with costs: what Get,
// Len, EstimatedSize, Range and Stats must report, which notifications must and must not arrive,
// capacity after every step, behaviour after Close). This binds cache.go / builder.go - the layer the
// white-box harnesses in package internal do not pass through.

import (
	"bufio"
	"context"
	"errors"
	"fmt"
	"math/rand"
	"os"
	"path/filepath"
	"strconv"
	"sync"
	"testing"
	"time"

	"github.com/Yiling-J/theine-go"
	"github.com/Yiling-J/theine-go/internal"
)

type apiCache interface {
	Set(key int, value int, cost int64) bool
	SetWithTTL(key int, value int, cost int64, ttl time.Duration) bool
	Delete(key int)
	Range(f func(key int, value int) bool)
	Len() int
	EstimatedSize() int
	Stats() theine.Stats
	Wait()
	Close()
}

func apiEnvInt(name string, def int) int {
	if v, err := strconv.Atoi(os.Getenv(name)); err == nil {
		return v
	}
	return def
}

func apiRun(tr *kTrace, id string, salt int64) {
	rnd := rand.New(rand.NewSource(salt))
	maxsize := int64(3 + rnd.Intn(6))
	loading := rnd.Intn(2) == 0
	door := !loading && rnd.Intn(3) == 0 // (a loaded value the doorkeeper turns away is returned but not stored: not combined)
	costfn := rnd.Intn(3) == 0
	keys := int(maxsize) + 3
	cost := func(v int) int64 {
		if v%5 == 0 {
			return maxsize + 1
		}
		return int64(v%2) + 1
	}
	b := theine.NewBuilder[int, int](maxsize).Doorkeeper(door).RemovalListener(func(k int, v int, r theine.RemoveReason) {
		tr.emit(map[string]any{"ev": "anotify", "k": k, "v": v, "reason": int(r)})
	})
	if costfn {
		b = b.Cost(cost)
	}
	val := 0
	var c apiCache
	var get func(k int) (int, bool, int)
	if loading {
		lc, err := b.Loading(func(ctx context.Context, key int) (theine.Loaded[int], error) {
			val++
			v := val
			lcst := int64(1 + v%2)
			ret := lcst
			if costfn && v%3 == 0 {
				ret, lcst = 0, cost(v)
			}
			tr.emit(map[string]any{"ev": "aload", "k": key, "v": v, "cost": lcst})
			return theine.Loaded[int]{Value: v, Cost: ret, TTL: 0}, nil
		}).Build()
		if err != nil {
			tr.emit(map[string]any{"ev": "aerr", "id": id})
			return
		}
		c = lc
		get = func(k int) (int, bool, int) {
			v, err := lc.Get(context.Background(), k)
			code := 0
			if err != nil {
				code = 1
				if errors.Is(err, internal.ErrCacheClosed) {
					code = 2
				}
			}
			return v, err == nil, code
		}
	} else {
		pc, err := b.Build()
		if err != nil {
			tr.emit(map[string]any{"ev": "aerr", "id": id})
			return
		}
		c = pc
		get = func(k int) (int, bool, int) {
			v, ok := pc.Get(k)
			return v, ok, 0
		}
	}
	tr.emit(map[string]any{"ev": "areset", "id": id, "maxsize": maxsize, "loading": b2i(loading), "door": b2i(door), "costfn": b2i(costfn), "mode": "api"})
	nops := 60 + rnd.Intn(80)
	for i := 0; i < nops; i++ {
		k := 1 + rnd.Intn(keys)
		switch x := rnd.Intn(100); {
		case x < 40:
			val++
			v := val
			cst := int64(1 + rnd.Intn(int(maxsize)+1))
			if rnd.Intn(3) != 0 {
				cst = int64(1 + rnd.Intn(2))
			}
			arg := cst
			if costfn && rnd.Intn(2) == 0 {
				arg, cst = 0, cost(v)
			}
			ttl := int64(0)
			if rnd.Intn(4) == 0 {
				ttl = 3600
			}
			tr.emit(map[string]any{"ev": "acall", "op": "set", "k": k, "v": v, "cost": cst, "ttl": ttl})
			var ok bool
			if ttl == 0 && rnd.Intn(2) == 0 {
				ok = c.Set(k, v, arg)
			} else {
				ok = c.SetWithTTL(k, v, arg, time.Duration(ttl)*time.Second)
			}
			tr.emit(map[string]any{"ev": "aret", "op": "set", "ok": b2i(ok), "v": 0, "n": 0})
		case x < 70:
			tr.emit(map[string]any{"ev": "acall", "op": "get", "k": k, "v": 0, "cost": 0, "ttl": 0})
			v, ok, code := get(k)
			tr.emit(map[string]any{"ev": "aret", "op": "get", "ok": b2i(ok), "v": v, "n": code})
		case x < 82:
			tr.emit(map[string]any{"ev": "acall", "op": "del", "k": k, "v": 0, "cost": 0, "ttl": 0})
			c.Delete(k)
			tr.emit(map[string]any{"ev": "aret", "op": "del", "ok": 1, "v": 0, "n": 0})
		case x < 87:
			tr.emit(map[string]any{"ev": "acall", "op": "len", "k": 0, "v": 0, "cost": 0, "ttl": 0})
			tr.emit(map[string]any{"ev": "aret", "op": "len", "ok": 1, "v": 0, "n": c.Len()})
		case x < 92:
			tr.emit(map[string]any{"ev": "acall", "op": "est", "k": 0, "v": 0, "cost": 0, "ttl": 0})
			tr.emit(map[string]any{"ev": "aret", "op": "est", "ok": 1, "v": 0, "n": c.EstimatedSize()})
		case x < 96:
			tr.emit(map[string]any{"ev": "acall", "op": "range", "k": 0, "v": 0, "cost": 0, "ttl": 0})
			seen := [][]int{}
			c.Range(func(key int, value int) bool {
				seen = append(seen, []int{key, value})
				return true
			})
			tr.emit(map[string]any{"ev": "arange", "seen": seen})
			tr.emit(map[string]any{"ev": "aret", "op": "range", "ok": 1, "v": 0, "n": len(seen)})
		default:
			tr.emit(map[string]any{"ev": "acall", "op": "stats", "k": 0, "v": 0, "cost": 0, "ttl": 0})
			st := c.Stats()
			tr.emit(map[string]any{"ev": "aret", "op": "stats", "ok": 1, "v": int(st.Hits()), "n": int(st.Misses())})
		}
		c.Wait()
		tr.emit(map[string]any{"ev": "awaited"})
	}
	// after Close nothing is served
	tr.emit(map[string]any{"ev": "acall", "op": "close", "k": 0, "v": 0, "cost": 0, "ttl": 0})
	c.Close()
	tr.emit(map[string]any{"ev": "aret", "op": "close", "ok": 1, "v": 0, "n": 0})
	for k := 1; k <= keys; k++ {
		tr.emit(map[string]any{"ev": "acall", "op": "get", "k": k, "v": 0, "cost": 0, "ttl": 0})
		v, ok, code := get(k)
		tr.emit(map[string]any{"ev": "aret", "op": "get", "ok": b2i(ok), "v": v, "n": code})
	}
	tr.emit(map[string]any{"ev": "acall", "op": "len", "k": 0, "v": 0, "cost": 0, "ttl": 0})
	tr.emit(map[string]any{"ev": "aret", "op": "len", "ok": 1, "v": 0, "n": c.Len()})
	tr.emit(map[string]any{"ev": "aend"})
}

// apiDoorGrow: doorkeeper on and enough resident keys for the per-shard filters to be cleared and
// rebuilt (they grow with the shard's map and are reset after enough first sightings). A Set may be
// refused only for a key the cache does not hold: every key that a Get has just found must be
// accepted when it is written again.
// apiBulk: one write that has to displace hundreds of resident entries (a heavy entry set into a cache full of
// unit entries, directly or by a cost update of a resident key). When Wait returns the displacement has
// happened and has been reported: EstimatedSize is within MaxSize and equals what was stored minus what the
// listener was told, Len likewise (C02, C20, C05). Counts only - the keys do not fit the observer's key domain.
func apiBulk(tr *kTrace, id string, salt int64) {
	rnd := rand.New(rand.NewSource(salt))
	maxsize := 300 + rnd.Intn(500)
	heavy := maxsize/2 + rnd.Intn(maxsize/3)
	var notified, notifiedCost int64
	costOf := map[int]int64{}
	var mu sync.Mutex
	c, err := theine.NewBuilder[int, int](int64(maxsize)).RemovalListener(func(k int, v int, r theine.RemoveReason) {
		mu.Lock()
		notified++
		notifiedCost += costOf[k]
		mu.Unlock()
	}).Build()
	if err != nil {
		tr.emit(map[string]any{"ev": "aerr", "id": id})
		return
	}
	defer c.Close()
	var stored, storedCost int64
	for k := 1; k <= maxsize; k++ {
		mu.Lock()
		costOf[k] = 1
		mu.Unlock()
		if c.Set(k, k, 1) {
			stored++
			storedCost++
		}
	}
	c.Wait()
	update := salt%2 == 1
	hk := maxsize + 1
	if update {
		hk = 1 + rnd.Intn(maxsize) // a resident key becomes heavy (if it is still resident: an update, else an insert)
	}
	mu.Lock()
	_, had := c.Get(hk)
	old := costOf[hk]
	costOf[hk] = int64(heavy)
	mu.Unlock()
	if c.Set(hk, -1, int64(heavy)) {
		if had {
			storedCost += int64(heavy) - old
		} else {
			stored++
			storedCost += int64(heavy)
		}
	}
	c.Wait()
	mu.Lock()
	n, nc := notified, notifiedCost
	mu.Unlock()
	// an entry that was updated and evicted afterwards is reported with the cost it had when it left
	tr.emit(map[string]any{"ev": "abulk", "id": id, "maxsize": maxsize, "heavy": heavy, "update": update, "stored": stored, "storedcost": storedCost,
		"notified": n, "notifiedcost": nc, "est": c.EstimatedSize(), "len": c.Len()})
}

func apiDoorGrow(tr *kTrace, id string, salt int64) {
	rnd := rand.New(rand.NewSource(salt))
	n := 2500 + rnd.Intn(1500)
	c, err := theine.NewBuilder[int, int](int64(n + 500)).Doorkeeper(true).Build()
	if err != nil {
		tr.emit(map[string]any{"ev": "aerr", "id": id})
		return
	}
	defer c.Close()
	for k := 1; k <= n; k++ {
		c.Set(k, k, 1)
		c.Set(k, k, 1)
		if rnd.Intn(5) == 0 {
			c.Set(k, k+1, 1)
		}
	}
	c.Wait()
	resident, refused := 0, 0
	first := []int{}
	for k := 1; k <= n; k++ {
		if _, ok := c.Get(k); !ok {
			continue
		}
		resident++
		if !c.Set(k, k+7, 1) {
			refused++
			if len(first) < 5 {
				first = append(first, k)
			}
		}
	}
	// ... and a Delete of a key the cache holds removes it, whatever the filters remember of it
	undeleted := 0
	gone := map[int]bool{}
	for k := 1; k <= n; k += 3 {
		if _, ok := c.Get(k); !ok {
			continue
		}
		c.Delete(k)
		gone[k] = true
		if _, ok := c.Get(k); ok {
			undeleted++
			if len(first) < 8 {
				first = append(first, -k)
			}
		}
	}
	c.Wait()
	c.Range(func(k, v int) bool {
		if gone[k] {
			undeleted++
		}
		return true
	})
	tr.emit(map[string]any{"ev": "adoor", "id": id, "keys": n, "resident": resident, "refused": refused, "undeleted": undeleted, "first": first})
}

func TestVerif_Api(t *testing.T) {
	out := os.Getenv("VERIF_OUT")
	if out == "" {
		t.Skip("VERIF_OUT not set")
	}
	f, err := os.Create(filepath.Join(out, "api.ndjson"))
	if err != nil {
		t.Fatal(err)
	}
	tr := &kTrace{w: bufio.NewWriterSize(f, 1<<20), f: f}
	defer func() { tr.w.Flush(); f.Close() }()
	n := apiEnvInt("VERIF_N", 40)
	base := int64(apiEnvInt("VERIF_SEED", 1)) * 1000003
	for i := 0; i < n; i++ {
		apiRun(tr, fmt.Sprintf("api%d", i), base+int64(i))
	}
	for i := 0; i < 1+n/20; i++ {
		apiDoorGrow(tr, fmt.Sprintf("door%d", i), base+int64(7000+i))
	}
	for i := 0; i < 4+n/20; i++ {
		apiBulk(tr, fmt.Sprintf("bulk%d", i), base+int64(9000+i))
	}
}
