package theine_test

// Hook-free linearizability histories (LinSearch.tla). Concurrent clients drive caches built with the
// public builder; nothing inside the code is observed - only every call, its result and two stamps
// from one shared atomic counter (before the call, after the return). The operations of one run are
// split per key (linearizability is compositional) and written as one problem per line; TLC searches
// for a linearization of each against the sequential register of LinSearch.tla.
//
// strict runs: no TTL, total cost of all keys within MaxSize, no doorkeeper -> nothing may be lost, a
// miss needs the key to be absent.  lossy runs: small MaxSize, short TTLs, doorkeeper -> a miss is
// always possible but final.  Both: plain and loading caches, entry pool on and off.

import (
	"bufio"
	"context"
	"errors"
	"fmt"
	"math/rand"
	"os"
	"path/filepath"
	"sync"
	"sync/atomic"
	"testing"
	"time"

	"github.com/Yiling-J/theine-go"
)

type linOp struct {
	T string `json:"t"`
	V int    `json:"v"`
	C int64  `json:"c"`
	R int64  `json:"r"`
}

type linIv struct {
	C int64 `json:"c"`
	R int64 `json:"r"`
}

type linCtxKey struct{}

type linClient struct {
	ops    map[int][]linOp
	loaded int   // value produced by a loader invocation inside the current call (0 = none)
	lc     int64 // stamp taken when that loader invocation began (0 = the loader did not run in this call)
}

type linCfg struct {
	strict, loading, door, pool bool
	maxsize                     int64
	keys, clients, nops         int
}

func linRun(tr *kTrace, id string, cfg linCfg, salt int64) {
	rnd := rand.New(rand.NewSource(salt))
	var stamp atomic.Int64
	var val atomic.Int64
	var lmu sync.Mutex
	loads := map[int][]linIv{}
	errLoad := errors.New("load failed")
	type linNote struct {
		V      int   `json:"v"`
		Reason int   `json:"reason"`
		At     int64 `json:"at"`
	}
	notes := map[int][]linNote{}
	b := theine.NewBuilder[int, int](cfg.maxsize).Doorkeeper(cfg.door).UseEntryPool(cfg.pool).RemovalListener(func(k, v int, r theine.RemoveReason) {
		at := stamp.Add(1)
		lmu.Lock()
		notes[k] = append(notes[k], linNote{v, int(r), at})
		lmu.Unlock()
	})
	var pc *theine.Cache[int, int]
	var lc *theine.LoadingCache[int, int]
	var err error
	if cfg.loading {
		lc, err = b.Loading(func(ctx context.Context, key int) (theine.Loaded[int], error) {
			c := stamp.Add(1)
			cl := ctx.Value(linCtxKey{}).(*linClient)
			v := int(val.Add(1))
			fail := v%7 == 0
			if v%3 == 0 {
				time.Sleep(time.Duration(v%5) * 20 * time.Microsecond)
			}
			cl.lc = c
			if !fail {
				cl.loaded = v
			}
			r := stamp.Add(1)
			lmu.Lock()
			loads[key] = append(loads[key], linIv{c, r})
			lmu.Unlock()
			if fail {
				return theine.Loaded[int]{}, errLoad
			}
			ttl := time.Duration(0)
			if !cfg.strict && v%4 == 0 {
				ttl = time.Duration(1+v%3) * time.Millisecond
			}
			return theine.Loaded[int]{Value: v, Cost: 1, TTL: ttl}, nil
		}).Build()
	} else {
		pc, err = b.Build()
	}
	if err != nil {
		panic(err)
	}
	clients := make([]*linClient, cfg.clients)
	seeds := make([]int64, cfg.clients)
	for i := range clients {
		clients[i] = &linClient{ops: map[int][]linOp{}}
		seeds[i] = rnd.Int63()
	}
	var wg sync.WaitGroup
	for ci := range clients {
		wg.Add(1)
		go func(ci int) {
			defer wg.Done()
			cl := clients[ci]
			r := rand.New(rand.NewSource(seeds[ci]))
			ctx := context.WithValue(context.Background(), linCtxKey{}, cl)
			add := func(k int, o linOp) { cl.ops[k] = append(cl.ops[k], o) }
			for i := 0; i < cfg.nops; i++ {
				k := 1 + r.Intn(cfg.keys)
				x := r.Intn(100)
				switch {
				case x < 35:
					v := int(val.Add(1))
					cost := int64(1)
					if !cfg.strict && r.Intn(4) == 0 {
						cost = 1 + int64(r.Intn(int(cfg.maxsize)+1)) // occasionally above MaxSize: refused
					} else if r.Intn(3) == 0 {
						cost = 2
					}
					ttl := time.Duration(0)
					if !cfg.strict && r.Intn(3) == 0 {
						ttl = time.Duration(1+r.Intn(3)) * time.Millisecond
					}
					c := stamp.Add(1)
					var ok bool
					switch {
					case cfg.loading && ttl > 0:
						ok = lc.SetWithTTL(k, v, cost, ttl)
					case cfg.loading:
						ok = lc.Set(k, v, cost)
					case ttl > 0:
						ok = pc.SetWithTTL(k, v, cost, ttl)
					default:
						ok = pc.Set(k, v, cost)
					}
					rr := stamp.Add(1)
					if ok {
						add(k, linOp{"set", v, c, rr})
					} else if cfg.strict {
						add(k, linOp{"refused", v, c, rr}) // never legal in a strict run
					} else {
						add(k, linOp{"noop", v, c, rr})
					}
				case x < 75:
					if cfg.loading {
						cl.loaded, cl.lc = 0, 0
						c := stamp.Add(1)
						v, err := lc.Get(ctx, k)
						rr := stamp.Add(1)
						switch {
						// a loading Get that runs the loader is two steps of the code: the lookup that misses (before the
						// loader began) and, for a successful load, the store of the loaded value (after it began) - the
						// load is admitted like a Set, whatever the key holds by then
						case err != nil && cl.lc != 0:
							add(k, linOp{"miss", 0, c, cl.lc})
						case err != nil:
							add(k, linOp{"miss", 0, c, rr}) // joined a load that failed: the key was absent while it ran
						case cl.loaded != 0 && cl.loaded == v:
							add(k, linOp{"miss", 0, c, cl.lc})
							add(k, linOp{"load", v, cl.lc, rr})
						default:
							add(k, linOp{"hit", v, c, rr})
						}
					} else {
						c := stamp.Add(1)
						v, ok := pc.Get(k)
						rr := stamp.Add(1)
						if ok {
							add(k, linOp{"hit", v, c, rr})
						} else {
							add(k, linOp{"miss", 0, c, rr})
						}
					}
				case x < 90:
					c := stamp.Add(1)
					if cfg.loading {
						lc.Delete(k)
					} else {
						pc.Delete(k)
					}
					add(k, linOp{"del", 0, c, stamp.Add(1)})
				default:
					seen := map[int]int{}
					c := stamp.Add(1)
					f := func(key, value int) bool { seen[key] = value; return true }
					if cfg.loading {
						lc.Range(f)
					} else {
						pc.Range(f)
					}
					rr := stamp.Add(1)
					for key := 1; key <= cfg.keys; key++ {
						if v, ok := seen[key]; ok {
							add(key, linOp{"hit", v, c, rr})
						} else {
							add(key, linOp{"miss", 0, c, rr})
						}
					}
				}
				if r.Intn(16) == 0 {
					time.Sleep(time.Duration(r.Intn(200)) * time.Microsecond)
				}
			}
		}(ci)
	}
	wg.Wait()
	if cfg.loading {
		lc.Close()
	} else {
		pc.Close()
	}
	mode := "lossy"
	if cfg.strict {
		mode = "strict"
	}
	for k := 1; k <= cfg.keys; k++ {
		ops := make([][]linOp, len(clients))
		for i, cl := range clients {
			ops[i] = cl.ops[k]
			if ops[i] == nil {
				ops[i] = []linOp{}
			}
		}
		l := loads[k]
		if l == nil {
			l = []linIv{}
		}
		tr.emit(map[string]any{"id": id, "k": k, "mode": mode, "loading": b2i(cfg.loading), "pool": b2i(cfg.pool), "door": b2i(cfg.door),
			"maxsize": cfg.maxsize, "ops": ops, "loads": l, "notes": append([]linNote{}, notes[k]...)})
	}
}

func TestVerif_ApiLin(t *testing.T) {
	out := os.Getenv("VERIF_OUT")
	if out == "" {
		t.Skip("VERIF_OUT not set")
	}
	f, err := os.Create(filepath.Join(out, "lin.ndjson"))
	if err != nil {
		t.Fatal(err)
	}
	tr := &kTrace{w: bufio.NewWriterSize(f, 1<<20), f: f}
	defer func() { tr.w.Flush(); f.Close() }()
	n := apiEnvInt("VERIF_N", 24)
	base := int64(apiEnvInt("VERIF_SEED", 1)) * 1000003
	rnd := rand.New(rand.NewSource(base + 4242))
	for i := 0; i < n; i++ {
		cfg := linCfg{strict: i%2 == 0, loading: i%3 == 1, pool: i%4 >= 2, keys: 2 + rnd.Intn(4), clients: 2 + rnd.Intn(5), nops: 40 + rnd.Intn(120)}
		if cfg.strict {
			// the policy may lag behind the deletes / cost decreases of calls still in flight: one stale cost per client
			cfg.maxsize = int64(2*cfg.keys + 2*cfg.clients + 2 + rnd.Intn(4))
		} else {
			cfg.maxsize = int64(1 + rnd.Intn(2*cfg.keys))
			cfg.door = !cfg.loading && i%5 == 3
		}
		linRun(tr, fmt.Sprintf("lin%d", i), cfg, base+int64(i))
	}
}
