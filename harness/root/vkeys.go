package theine_test

// C18 harness (injected into package theine_test): key families of every supported kind, equal keys
// built along different code paths (fresh backing arrays, conversions, arithmetic, zero and extreme
// values), different keys, forced hash collisions through a non-injective StringKey, concurrent
// loading Gets of colliding keys. Every Set/Get is logged with the key's class (an id of the key's
// VALUE assigned by the harness); TLC validates the trace against the map-per-class observer
// (KeyTrace): a Get returns the last value set for its class and never another class's value.

import (
	"bufio"
	"context"
	"encoding/json"
	"errors"
	"fmt"
	"github.com/Yiling-J/theine-go/internal"
	"os"
	"path/filepath"
	"runtime"
	"strings"
	"sync"
	"testing"
	"time"

	"github.com/Yiling-J/theine-go"
)

type kTrace struct {
	mu  sync.Mutex
	w   *bufio.Writer
	f   *os.File
	seq int
}

func (t *kTrace) emit(m map[string]any) {
	t.mu.Lock()
	t.seq++
	m["seq"] = t.seq
	b, _ := json.Marshal(m)
	t.w.Write(b)
	t.w.WriteByte('\n')
	t.mu.Unlock()
}

var kVal int

// kFamily exercises one key type: keys[i] are pairs (class id, key); equal classes are equal keys
// built differently.
func kFamily[K comparable](tr *kTrace, ty string, keys []K, classes []int, strKey func(K) string) {
	kFamilyMode(tr, ty, keys, classes, strKey, "plain")
	if strKey != nil {
		// the other builders must carry the key function along
		kFamilyMode(tr, ty+"_loading", keys, classes, strKey, "loading")
		kFamilyMode(tr, ty+"_hybrid", keys, classes, strKey, "hybrid")
	}
}

type kCache[K comparable] struct {
	set      func(k K, v int)
	get      func(k K) (int, bool)
	del      func(k K)
	wait     func()
	lenRange func() (int, int) // nil: the cache type has neither Len nor Range
	close    func()
}

func kBuild[K comparable](strKey func(K) string, mode string) (*kCache[K], error) {
	b := theine.NewBuilder[K, int](1000)
	if strKey != nil {
		b = b.StringKey(strKey)
	}
	switch mode {
	case "loading":
		c, err := b.Loading(func(ctx context.Context, k K) (theine.Loaded[int], error) {
			return theine.Loaded[int]{}, errors.New("not there")
		}).Build()
		if err != nil {
			return nil, err
		}
		return &kCache[K]{set: func(k K, v int) { c.Set(k, v, 1) },
			get: func(k K) (int, bool) { v, err := c.Get(context.Background(), k); return v, err == nil },
			del: c.Delete, wait: c.Wait, close: c.Close,
			lenRange: func() (int, int) { n := 0; c.Range(func(k K, v int) bool { n++; return true }); return c.Len(), n }}, nil
	case "hybrid":
		c, err := b.Hybrid(internal.NewSimpleMapSecondary[K, int]()).Workers(1).Build()
		if err != nil {
			return nil, err
		}
		return &kCache[K]{set: func(k K, v int) { c.Set(k, v, 1) },
			get: func(k K) (int, bool) { v, ok, _ := c.Get(k); return v, ok },
			del: func(k K) { _ = c.Delete(k) }, wait: func() { time.Sleep(2 * time.Millisecond) }, close: c.Close}, nil
	}
	c, err := b.Build()
	if err != nil {
		return nil, err
	}
	return &kCache[K]{set: func(k K, v int) { c.Set(k, v, 1) }, get: c.Get, del: c.Delete, wait: c.Wait, close: c.Close,
		lenRange: func() (int, int) { n := 0; c.Range(func(k K, v int) bool { n++; return true }); return c.Len(), n }}, nil
}

func kFamilyMode[K comparable](tr *kTrace, ty string, keys []K, classes []int, strKey func(K) string, mode string) {
	c, err := kBuild(strKey, mode)
	if err != nil {
		tr.emit(map[string]any{"ev": "kerr", "ty": ty})
		return
	}
	defer c.close()
	tr.emit(map[string]any{"ev": "kreset", "ty": ty, "go": runtime.Version(), "padded": strings.Contains(ty, "padded")})
	// every key is written through one representative and read through all equal ones, twice over
	for round := 0; round < 2; round++ {
		for i, k := range keys {
			kVal++
			c.set(k, kVal)
			tr.emit(map[string]any{"ev": "kset", "ty": ty, "class": classes[i], "v": kVal})
			for j, k2 := range keys {
				v, ok := c.get(k2)
				tr.emit(map[string]any{"ev": "kget", "ty": ty, "class": classes[j], "found": b2i(ok), "v": v})
			}
		}
		c.wait()
		if c.lenRange != nil {
			ln, n := c.lenRange()
			tr.emit(map[string]any{"ev": "klen", "ty": ty, "len": ln, "range": n})
		}
	}
	for i, k := range keys {
		if i%2 == 0 {
			c.del(k)
			tr.emit(map[string]any{"ev": "kdel", "ty": ty, "class": classes[i]})
			for j, k2 := range keys {
				v, ok := c.get(k2)
				tr.emit(map[string]any{"ev": "kget", "ty": ty, "class": classes[j], "found": b2i(ok), "v": v})
			}
		}
	}
}

func b2i(b bool) int {
	if b {
		return 1
	}
	return 0
}

type kPair struct {
	A int32
	B int32
}
type kPadded struct {
	A int8
	B int64
}
type kTenant struct {
	Tenant string
	ID     int
}
type kArr [3]uint16

// key types whose strings do not sit in a top-level field: inside an array, inside a nested struct, inside an
// array of structs - all need (and are given) a StringKey function before Go 1.24
type kPath struct {
	Tenant uint32
	Path   [2]string
}
type kNested struct {
	ID    int
	Inner kTenant
}
type kArrOfStruct [2]kTenant
type kStrArr [2]string

func kMkStr(parts ...string) string { // a string with its own backing array
	var sb strings.Builder
	for _, p := range parts {
		sb.WriteString(p)
	}
	return sb.String()
}

//go:noinline
func kMkPadded(a int8, b int64, garbage int64) kPadded {
	var junk [4]int64
	for i := range junk {
		junk[i] = garbage * int64(i+3)
	}
	_ = junk
	var p kPadded
	p.A = a
	p.B = b
	return p
}

func TestVerif_C18Keys(t *testing.T) {
	out := os.Getenv("VERIF_OUT")
	if out == "" {
		t.Skip("VERIF_OUT not set")
	}
	f, err := os.Create(filepath.Join(out, "keys.ndjson"))
	if err != nil {
		t.Fatal(err)
	}
	tr := &kTrace{f: f, w: bufio.NewWriterSize(f, 1<<20)}
	defer func() { tr.w.Flush(); f.Close() }()

	x := 41
	kFamily(tr, "int", []int{42, x + 1, 0, -1, 1 << 62, int(int64(1) << 62), 7, 8}, []int{1, 1, 2, 3, 4, 4, 5, 6}, nil)
	kFamily(tr, "uint8", []uint8{0, 255, uint8(x * 6), 246, 1}, []int{1, 2, 3, 3, 4}, nil)
	kFamily(tr, "int64", []int64{-1 << 63, 1<<63 - 1, int64(x) + 1, 42}, []int{1, 2, 3, 3}, nil)
	kFamily(tr, "uint64", []uint64{0, 1<<64 - 1, uint64(x), 41}, []int{1, 2, 3, 3}, nil)
	kFamily(tr, "bool", []bool{true, x == 41, false, x != 41}, []int{1, 1, 2, 2}, nil)
	s1 := kMkStr("hel", "lo")
	s2 := kMkStr("h", "ello")
	long := strings.Repeat("k", 300)
	kFamily(tr, "string", []string{"hello", s1, s2, "", kMkStr(), "hellp", long, kMkStr(long[:150], long[150:]), s1[:4], "hell"},
		[]int{1, 1, 1, 2, 2, 3, 4, 4, 5, 5}, nil)
	pa, pb := new(int), new(int)
	kFamily(tr, "pointer", []*int{pa, pb, pa, nil}, []int{1, 2, 1, 3}, nil)
	kFamily(tr, "array", []kArr{{1, 2, 3}, {1, 2, uint16(x - 38)}, {3, 2, 1}, {}}, []int{1, 1, 2, 3}, nil)
	kFamily(tr, "struct", []kPair{{1, 2}, {A: int32(x - 40), B: 2}, {2, 1}, {}}, []int{1, 1, 2, 3}, nil)
	kFamily(tr, "struct_padded", []kPadded{kMkPadded(1, 2, 0x1111), kMkPadded(1, 2, 0x7777), kMkPadded(2, 2, 5), kMkPadded(1, 2, -1)},
		[]int{1, 1, 2, 1}, nil)
	// struct with a string field needs a StringKey before Go 1.24
	kFamily(tr, "struct_strkey", []kTenant{{"a", 1}, {kMkStr("a"), 1}, {"a", 2}, {"", 0}, {kMkStr(), 0}, {"b", 1}},
		[]int{1, 1, 2, 3, 3, 4}, func(k kTenant) string { return fmt.Sprintf("%s/%d", k.Tenant, k.ID) })
	// a StringKey that is not injective: different keys collide in the hash but must not alias
	kFamily(tr, "struct_strkey_colliding", []kTenant{{"a", 1}, {"a", 2}, {kMkStr("a"), 1}, {"b", 1}, {"a", 3}},
		[]int{1, 2, 1, 3, 4}, func(k kTenant) string { return k.Tenant })
	// a StringKey that yields the empty string for some keys (zero value): equal keys whose empty
	// strings come from different backing arrays
	e1 := kMkStr("xyz")[:0]
	e2 := strings.TrimSpace("   ")
	kFamily(tr, "struct_strkey_empty", []kTenant{{"", 7}, {e1, 7}, {e2, 7}, {kMkStr(), 7}, {"", 8}, {"q", 7}},
		[]int{1, 1, 1, 1, 2, 3}, func(k kTenant) string { return k.Tenant })
	kFamily(tr, "string_strkey_empty", []string{"", e1, e2, s1[2:2], "z"},
		[]int{1, 1, 1, 1, 2}, func(k string) string { return k })

	// strings below the top level of the key type, equal keys built from different backing arrays
	a1, a2, b1 := kMkStr("al", "pha"), kMkStr("a", "lpha"), kMkStr("be", "ta")
	kFamily(tr, "struct_array_of_strings_strkey", []kPath{{1, [2]string{"alpha", "beta"}}, {1, [2]string{a1, b1}}, {1, [2]string{a2, kMkStr("beta")}},
		{2, [2]string{a1, b1}}, {1, [2]string{b1, a1}}, {1, [2]string{"", ""}}, {1, [2]string{kMkStr(), a1[:0]}}},
		[]int{1, 1, 1, 2, 3, 4, 4}, func(k kPath) string { return fmt.Sprintf("%d|%s|%s", k.Tenant, k.Path[0], k.Path[1]) })
	kFamily(tr, "nested_struct_strkey", []kNested{{1, kTenant{"alpha", 1}}, {1, kTenant{a1, 1}}, {1, kTenant{a2, 1}}, {2, kTenant{a1, 1}}, {1, kTenant{b1, 1}}},
		[]int{1, 1, 1, 2, 3}, func(k kNested) string { return fmt.Sprintf("%d|%s|%d", k.ID, k.Inner.Tenant, k.Inner.ID) })
	kFamily(tr, "array_of_structs_strkey", []kArrOfStruct{{{"alpha", 1}, {"beta", 2}}, {{a1, 1}, {b1, 2}}, {{a2, 1}, {kMkStr("beta"), 2}}, {{b1, 2}, {a1, 1}}},
		[]int{1, 1, 1, 2}, func(k kArrOfStruct) string { return fmt.Sprintf("%s/%d/%s/%d", k[0].Tenant, k[0].ID, k[1].Tenant, k[1].ID) })
	kFamily(tr, "array_of_strings_strkey", []kStrArr{{"alpha", "beta"}, {a1, b1}, {a2, kMkStr("beta")}, {b1, a1}, {"", ""}, {kMkStr(), a2[:0]}},
		[]int{1, 1, 1, 2, 3, 3}, func(k kStrArr) string { return k[0] + "|" + k[1] })

	// colliding keys in a loading cache: concurrent loads must not share results
	for round := 0; round < 30; round++ {
		var lmu sync.Mutex
		gate := make(chan struct{})
		lc, err := theine.NewBuilder[kTenant, int](100).StringKey(func(k kTenant) string { return k.Tenant }).
			BuildWithLoader(func(ctx context.Context, k kTenant) (theine.Loaded[int], error) {
				<-gate
				lmu.Lock()
				defer lmu.Unlock()
				return theine.Loaded[int]{Value: 1000 + k.ID, Cost: 1}, nil
			})
		if err != nil {
			continue
		}
		tr.emit(map[string]any{"ev": "kreset", "ty": "loading_colliding", "go": runtime.Version(), "padded": false})
		var wg sync.WaitGroup
		for id := 1; id <= 4; id++ {
			wg.Add(1)
			go func(id int) {
				defer wg.Done()
				v, err := lc.Get(context.Background(), kTenant{"t", id})
				tr.emit(map[string]any{"ev": "kload", "ty": "loading_colliding", "class": id, "v": v, "want": 1000 + id, "err": b2i(err != nil)})
			}(id)
		}
		time.Sleep(time.Duration(200+round*50) * time.Microsecond)
		close(gate)
		done := make(chan struct{})
		go func() { wg.Wait(); close(done) }()
		select {
		case <-done:
		case <-time.After(5 * time.Second):
			tr.emit(map[string]any{"ev": "khang", "ty": "loading_colliding"})
		}
		lc.Close()
	}
}
