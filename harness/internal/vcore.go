package internal

// Verification harness core (injected into package internal by `go test -overlay`).
// Trace writer, environment plumbing, small helpers shared by all harness files.

import (
	"bufio"
	"bytes"
	"encoding/json"
	"fmt"
	"math/rand"
	"os"
	"path/filepath"
	"runtime"
	"sort"
	"strconv"
	"strings"
	"sync"
	"sync/atomic"
	"testing"
)

type vRec map[string]any

// vTrace is an NDJSON trace file. Emit may be called from any goroutine; the
// sequence number is taken inside Emit's lock, so callers that emit while holding
// the lock that protects the logged state get a consistent order.
type vTrace struct {
	mu  sync.Mutex
	w   *bufio.Writer
	f   *os.File
	seq int64
	n   int64
}

func vNewTrace(path string) *vTrace {
	if err := os.MkdirAll(filepath.Dir(path), 0o755); err != nil {
		panic(err)
	}
	f, err := os.Create(path)
	if err != nil {
		panic(err)
	}
	return &vTrace{f: f, w: bufio.NewWriterSize(f, 1<<20)}
}

func (t *vTrace) Emit(r vRec) {
	t.mu.Lock()
	t.seq++
	r["seq"] = t.seq
	b, err := json.Marshal(r)
	if err != nil {
		t.mu.Unlock()
		panic(err)
	}
	t.w.Write(b)
	t.w.WriteByte('\n')
	t.n++
	t.mu.Unlock()
}

func (t *vTrace) Close() {
	t.mu.Lock()
	t.w.Flush()
	t.f.Close()
	t.mu.Unlock()
}

func vEnv(name, def string) string {
	if v := os.Getenv(name); v != "" {
		return v
	}
	return def
}

func vEnvInt(name string, def int) int {
	if v := os.Getenv(name); v != "" {
		n, err := strconv.Atoi(v)
		if err == nil {
			return n
		}
	}
	return def
}

func vSeed() int64 { return int64(vEnvInt("VERIF_SEED", 1)) }

func vRand(salt int64) *rand.Rand { return rand.New(rand.NewSource(vSeed()*1000003 + salt)) }

func vOutDir(t *testing.T) string {
	d := os.Getenv("VERIF_OUT")
	if d == "" {
		t.Skip("VERIF_OUT not set (harness test, run by /verif/check)")
	}
	return d
}

// vReadNDJSON reads a file of JSON lines.
func vReadNDJSON(path string) []map[string]any {
	b, err := os.ReadFile(path)
	if err != nil {
		panic(err)
	}
	var out []map[string]any
	for _, line := range bytes.Split(b, []byte("\n")) {
		line = bytes.TrimSpace(line)
		if len(line) == 0 {
			continue
		}
		var m map[string]any
		d := json.NewDecoder(bytes.NewReader(line))
		d.UseNumber()
		if err := d.Decode(&m); err != nil {
			panic(fmt.Sprintf("%s: %v: %s", path, err, line))
		}
		out = append(out, m)
	}
	return out
}

func vInt(v any) int64 {
	switch x := v.(type) {
	case json.Number:
		n, _ := x.Int64()
		return n
	case float64:
		return int64(x)
	case int:
		return int64(x)
	case int64:
		return x
	case string:
		n, _ := strconv.ParseInt(strings.TrimLeft(x, "abcdefghijklmnopqrstuvwxyz"), 10, 64)
		return n
	}
	return 0
}

func vStr(v any) string {
	if s, ok := v.(string); ok {
		return s
	}
	return fmt.Sprint(v)
}

func vFiles(dir, pattern string) []string {
	m, _ := filepath.Glob(filepath.Join(dir, pattern))
	sort.Strings(m)
	return m
}

// vGoid returns the current goroutine id (parsed from the stack header).
func vGoid() int64 {
	var buf [64]byte
	n := runtime.Stack(buf[:], false)
	// "goroutine 123 ["
	s := buf[10:n]
	i := bytes.IndexByte(s, ' ')
	id, _ := strconv.ParseInt(string(s[:i]), 10, 64)
	return id
}

var vCounter atomic.Int64

// vSummary writes a small JSON summary next to the traces (counts measured by the harness).
func vSummary(dir, name string, m map[string]any) {
	b, _ := json.MarshalIndent(m, "", " ")
	_ = os.WriteFile(filepath.Join(dir, name), b, 0o644)
}
