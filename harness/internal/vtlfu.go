package internal

// C07 / C09 harness: the real TinyLfu driven white-box by a seeded generator (insert / access /
// cost update / remove / climb+resize with arbitrary sketch contents and sample counters); after
// every step the complete policy state is logged. TLC validates every transition against
// TinyLfu.tla (some sequence of admit outcomes must explain it) and the C07 invariants.

import (
	"fmt"
	"math/rand"
	"path/filepath"
	"testing"

	"github.com/Yiling-J/theine-go/internal/hasher"
)

type vTlfu struct {
	t       *TinyLfu[int, int]
	ents    map[int]*Entry[int, int]
	ids     map[*Entry[int, int]]int
	hs      *hasher.Hasher[int]
	evicted []int
	n       int
}

func vNewTlfu(cap uint, n int) *vTlfu {
	hs := hasher.NewHasher[int](nil)
	v := &vTlfu{t: NewTinyLfu[int, int](cap, hs), ents: map[int]*Entry[int, int]{}, ids: map[*Entry[int, int]]int{}, hs: hs, n: n}
	v.t.removeCallback = func(e *Entry[int, int]) { v.evicted = append(v.evicted, v.ids[e]) }
	for i := 1; i <= n; i++ {
		e := &Entry[int, int]{key: i, value: i}
		v.ents[i] = e
		v.ids[e] = i
	}
	return v
}

func (v *vTlfu) list(l *List[int, int]) ([]int, int) {
	out := []int{}
	bad := 0
	k := 0
	for e := l.Front(); e != nil && k < 100000; e = e.Next(l.listType) {
		out = append(out, v.ids[e])
		f := 0
		if e.flag.IsWindow() {
			f |= 1
		}
		if e.flag.IsProbation() {
			f |= 2
		}
		if e.flag.IsProtected() {
			f |= 4
		}
		want := map[uint8]int{LIST_WINDOW: 1, LIST_PROBATION: 2, LIST_PROTECTED: 4}[l.listType]
		if f != want {
			bad++
		}
		k++
	}
	// backward walk must mirror the forward one
	back := []int{}
	k = 0
	for e := l.Back(); e != nil && k < 100000; e = e.Prev(l.listType) {
		back = append(back, v.ids[e])
		k++
	}
	if len(back) != len(out) {
		bad++
	} else {
		for i := range out {
			if back[len(back)-1-i] != out[i] {
				bad++
				break
			}
		}
	}
	return out, bad
}

func (v *vTlfu) snap() vRec {
	t := v.t
	w, b1 := v.list(t.window)
	pb, b2 := v.list(t.slru.probation)
	pt, b3 := v.list(t.slru.protected)
	pw := make([]int64, v.n)
	un := 0
	for i := 1; i <= v.n; i++ {
		e := v.ents[i]
		pw[i-1] = e.policyWeight
		if e.meta.prev == nil && (e.flag.IsWindow() || e.flag.IsProbation() || e.flag.IsProtected()) {
			un++ // untracked entry still carrying a region flag
		}
	}
	return vRec{"win": w, "pb": pb, "pt": pt, "lenW": t.window.len, "lenB": t.slru.probation.len, "lenT": t.slru.protected.len,
		"cntW": t.window.count, "cntB": t.slru.probation.count, "cntT": t.slru.protected.count,
		"capW": int64(t.window.capacity), "capT": int64(t.slru.protected.capacity), "ws": int64(t.weightedSize),
		"amt": t.amount, "pw": pw, "flagbad": b1 + b2 + b3 + un}
}

func (v *vTlfu) tracked(id int) bool { return v.ents[id].meta.prev != nil }

func vTlfuRun(tr *vTrace, id string, cap int, n int, steps int, salt int64) {
	rnd := vRand(salt)
	v := vNewTlfu(uint(cap), n)
	s0 := v.snap()
	s0["ev"] = "reset"
	s0["id"] = id
	s0["cap"] = cap
	s0["n"] = n
	tr.Emit(s0)
	emit := func(op string, e int, a int64) {
		r := v.snap()
		r["ev"] = "op"
		r["op"] = op
		r["e"] = e
		r["a"] = a
		ev := append([]int{}, v.evicted...)
		r["evicted"] = ev
		tr.Emit(r)
		v.evicted = v.evicted[:0]
	}
	for i := 0; i < steps; i++ {
		if vTlfuStep(tr, v, rnd, cap, n, emit) {
			return // the policy panicked: its state is not to be trusted any further
		}
	}
}

// vTlfuStep performs one white-box step; a panic inside the policy is logged (the eviction step did not
// complete) and reported as true.
func vTlfuStep(tr *vTrace, v *vTlfu, rnd *rand.Rand, cap int, n int, emit func(op string, e int, a int64)) (panicked bool) {
	defer func() {
		if r := recover(); r != nil {
			tr.Emit(vRec{"ev": "panic", "what": fmt.Sprint(r)})
			panicked = true
		}
	}()
	{
		t := v.t
		// no implicit climbing: the sample counters are driven explicitly by the resize step
		t.hitsInSample, t.missesInSample = 0, 0
		// arbitrary sketch contents
		if rnd.Intn(3) == 0 {
			k := 1 + rnd.Intn(n)
			t.sketch.Addn(v.hs.Hash(k), 1+rnd.Intn(9))
		}
		id := 1 + rnd.Intn(n)
		e := v.ents[id]
		switch x := rnd.Intn(100); {
		case x < 40:
			if v.tracked(id) {
				t.Access(ReadBufItem[int, int]{entry: e, hash: v.hs.Hash(id)})
				emit("access", id, 0)
			} else {
				w := int64(1 + rnd.Intn(cap))
				if rnd.Intn(4) != 0 && cap > 2 {
					w = int64(1 + rnd.Intn((cap+1)/2))
				}
				e.policyWeight = w
				e.flag = Flag{}
				t.sketch.Add(v.hs.Hash(id))
				t.Set(e)
				emit("set", id, w)
			}
		case x < 55:
			if v.tracked(id) {
				t.Access(ReadBufItem[int, int]{entry: e, hash: v.hs.Hash(id)})
				emit("access", id, 0)
			}
		case x < 72:
			if v.tracked(id) {
				nw := int64(1 + rnd.Intn(cap))
				d := nw - e.policyWeight
				if d != 0 {
					e.policyWeight += d
					t.UpdateCost(e, d)
					emit("update", id, d)
				}
			}
		case x < 84:
			if v.tracked(id) {
				t.Remove(e, false)
				emit("remove", id, 0)
			}
		default:
			// hill climber: arbitrary sample counts, hit ratio memory and step
			t.hitsInSample = uint64(rnd.Intn(1000))
			t.missesInSample = uint64(rnd.Intn(1000))
			t.hr = rnd.Float32()
			t.step = (rnd.Float32()*2 - 1) * float32(cap) * 1.5
			t.climb()
			a := int64(t.amount)
			t.resizeWindow()
			emit("resize", 0, a)
		}
	}
	return false
}

func TestVerif_C07Tlfu(t *testing.T) {
	out := vOutDir(t)
	rounds := vEnvInt("VERIF_N", 10)
	total := 0
	for cap := 1; cap <= 8; cap++ {
		tr := vNewTrace(filepath.Join(out, fmt.Sprintf("tlfu_cap%d.ndjson", cap)))
		for r := 0; r < rounds; r++ {
			n := 3 + (r % 4)
			vTlfuRun(tr, fmt.Sprintf("cap%d_run%d", cap, r), cap, n, 120, int64(cap*1000+r))
		}
		total += int(tr.n)
		tr.Close()
	}
	vSummary(out, "tlfu.json", map[string]any{"events": total})
}
