package internal

// C09 harness: hot-set and Zipf request traces on the real cache (plain and loading store, uniform
// and mixed costs, fresh or after a phase of concurrent use). Each request is logged with its
// outcome; TLC executes a strict LRU cache of the same size along the same request sequence
// (C09Trace / LRURef) and compares the hit counts, and checks retention of the hot set.

import (
	"context"
	"fmt"
	"math/rand"
	"path/filepath"
	"sync"
	"sync/atomic"
	"testing"
	"time"
)

type vC09Cfg struct {
	kind    string // "hot" or "zipf"
	cap     int
	mixed   bool
	loading bool
	warm    bool // preceded by concurrent use
	reqs    int
	hotFrac int // hot set = cap / hotFrac
	recency bool // preceded by a recency-friendly phase (a cyclic scan that fits a large window): the hill climber grows the window and its step decays
	heavy   int // > 0: hot keys cost this much, every other key 1; the cache is first filled with cheap one-off keys
}

func vC09Run(tr *vTrace, id string, c vC09Cfg, salt int64) {
	rnd := vRand(salt)
	nhot := 0
	costOf := func(k int) int64 {
		if c.heavy > 0 {
			if k <= nhot {
				return int64(c.heavy)
			}
			return 1
		}
		if c.mixed {
			return int64(1 + k%3)
		}
		return 1
	}
	st := NewStore[int, int](&StoreOptions[int, int]{MaxSize: int64(c.cap)})
	defer st.Close()
	var ls *LoadingStore[int, int]
	if c.loading {
		ls = NewLoadingStore[int, int](st)
		ls.Loader(func(ctx context.Context, key int) (Loaded[int], error) {
			return Loaded[int]{Value: key, Cost: costOf(key)}, nil
		})
	}
	if c.warm {
		var wg sync.WaitGroup
		var stop atomic.Bool
		for g := 0; g < 8; g++ {
			wg.Add(1)
			go func(g int) {
				defer wg.Done()
				r := rand.New(rand.NewSource(salt*31 + int64(g)))
				for i := 0; i < 3000 || (!stop.Load() && i < 200000); i++ {
					k := 5000000 + r.Intn(4*c.cap)
					if r.Intn(3) == 0 {
						st.Set(k, k, costOf(k), 0)
					} else {
						st.Get(k)
					}
				}
			}(g)
		}
		// for part of that phase somebody else holds the policy lock (SaveCache, a slow listener, a long wheel
		// advance do): readers pile up on full stripes meanwhile
		for rep := 0; rep < 3; rep++ {
			time.Sleep(300 * time.Microsecond)
			st.policyMu.Lock()
			// many readers at once: each one that fills a stripe waits for the policy lock with its batch
			var wg2 sync.WaitGroup
			for g := 0; g < 3*len(st.stripedBuffer); g++ {
				wg2.Add(1)
				go func(g int) {
					defer wg2.Done()
					r := rand.New(rand.NewSource(salt*77 + int64(rep*1000+g)))
					for i := 0; i < 60; i++ {
						st.Get(5000000 + r.Intn(4*c.cap))
					}
				}(g)
			}
			time.Sleep(3 * time.Millisecond)
			st.policyMu.Unlock()
			wg2.Wait()
		}
		stop.Store(true)
		wg.Wait()
		st.Wait()
	}
	full, away := 0, 0
	for i := range st.stripedBuffer {
		b := st.stripedBuffer[i]
		if b.tail.Load()-b.head.Load() >= uint64(capacity) {
			full++
		}
		if atomic.LoadPointer(&b.returned) == nil {
			away++
		}
	}
	defer func() {
		tr.Emit(vRec{"ev": "stripes", "id": id, "full": full, "token_away": away, "capW": int(st.policy.window.capacity)})
	}()
	tr.Emit(vRec{"ev": "reset", "id": id, "cap": c.cap, "kind": c.kind, "mixed": vb(c.mixed), "warm": vb(c.warm), "loading": vb(c.loading)})
	hot := c.cap / c.hotFrac
	if c.mixed {
		hot = c.cap / (2 * c.hotFrac) // hot set cost stays within half the cache
	}
	if c.heavy > 0 {
		hot = c.cap / (2 * c.heavy) // hot set cost = half the cache
	}
	if hot < 1 {
		hot = 1
	}
	nhot = hot
	z := rand.NewZipf(rnd, 1.01, 9.0, uint64(c.cap*1000))
	oneoff := 1000000
	request := func(k int, isHot bool, tail bool) {
		hit := false
		if c.loading {
			// a loading Get answers every request; it was a hit iff the key was resident
			_, ok := st.getFromShard(k, st.hasher.Hash(k), st.shards[int(st.hasher.Hash(k)&uint64(st.shardCount-1))])
			hit = ok
			ls.Get(context.Background(), k)
		} else {
			_, ok := st.Get(k)
			hit = ok
			if !ok {
				st.Set(k, k, costOf(k), 0)
			}
		}
		tr.Emit(vRec{"ev": "req", "k": k, "hit": vb(hit), "hot": vb(isHot), "tail": vb(tail), "cost": costOf(k)})
	}
	if c.recency {
		w := c.cap * 7 / 10
		for i := 0; i < 40*c.cap; i++ {
			request(3000000+i%w, false, false)
			if i%64 == 63 {
				st.Wait()
			}
		}
		st.Wait()
	}
	if c.heavy > 0 {
		// the cache is full of cheap keys that are never read again when the (heavy) hot keys arrive
		for i := 0; i < c.cap; i++ {
			oneoff++
			request(oneoff, false, false)
		}
		st.Wait()
	}
	for i := 0; i < c.reqs; i++ {
		tail := i >= c.reqs*6/10
		if c.kind == "hot" {
			if rnd.Intn(3) != 0 {
				request(1+rnd.Intn(hot), true, tail)
			} else {
				oneoff++
				request(oneoff, false, tail)
			}
		} else {
			request(int(z.Uint64())+1, false, tail)
		}
		if i%64 == 63 {
			st.Wait()
		}
	}
	st.Wait()
	resident := 0
	if c.kind == "hot" {
		for k := 1; k <= hot; k++ {
			if _, ok := st.getFromShard(k, st.hasher.Hash(k), st.shards[int(st.hasher.Hash(k)&uint64(st.shardCount-1))]); ok {
				resident++
			}
		}
	}
	tr.Emit(vRec{"ev": "end", "hot": hot, "resident_hot": resident})
}

func TestVerif_C09Quality(t *testing.T) {
	out := vOutDir(t)
	tr := vNewTrace(filepath.Join(out, "c09.ndjson"))
	defer tr.Close()
	thorough := vEnvInt("VERIF_N", 0) > 0
	caps := []int{20, 64, 128}
	if thorough {
		caps = []int{20, 50, 128, 400, 1000}
	}
	n := 0
	for _, cap := range caps {
		for v := 0; v < 8; v++ {
			c := vC09Cfg{cap: cap, mixed: v&1 == 1, loading: v&2 == 2, warm: v&4 == 4, hotFrac: 2}
			c.kind = "hot"
			c.reqs = 40 * cap
			if c.reqs < 10000 {
				// the striped read buffers alone hold 64 x 16 reads: a short trace on a tiny cache ends
				// before the policy has seen the hot keys often enough
				c.reqs = 10000
			}
			if c.reqs > 30000 {
				c.reqs = 30000
			}
			if c.warm && c.reqs < 20000 {
				// the concurrent phase leaves the adaptive window wherever the hill climber took it; it moves
				// back by a few percent of the capacity per sample period
				c.reqs = 20000
			}
			vC09Run(tr, fmt.Sprintf("hot_c%d_v%d", cap, v), c, int64(cap*10+v))
			c.kind = "zipf"
			c.reqs = 50 * cap
			if c.reqs > 40000 {
				c.reqs = 40000
			}
			vC09Run(tr, fmt.Sprintf("zipf_c%d_v%d", cap, v), c, int64(cap*10+v+5))
			n += 2
		}
		// heavy hot keys (cost 8 / 20, half the cache in total) against light one-off keys, cache pre-filled
		for hv, heavy := range []int{8, 20} {
			if cap/(2*heavy) < 2 {
				continue
			}
			c := vC09Cfg{cap: cap, kind: "hot", mixed: true, heavy: heavy, loading: hv == 1, hotFrac: 2, reqs: 20000}
			vC09Run(tr, fmt.Sprintf("heavyhot_c%d_h%d", cap, heavy), c, int64(cap*10+50+hv))
			n++
		}
	}
	// after a recency-friendly phase (window grown by the hill climber, step decayed) the hot-set workload has to pull
	// the window back: the drop of the hit ratio re-arms the climber
	for _, cap := range []int{64, 200} {
		vC09Run(tr, fmt.Sprintf("hot_after_scan_c%d", cap), vC09Cfg{cap: cap, kind: "hot", recency: true, hotFrac: 2, reqs: 30000}, int64(cap*10+90))
		n++
	}
	// one large cache: 25 hot keys of cost 20 (half of a cache of 1000) after 1000 cheap one-off keys - on a small cache
	// the few heavy hot keys get in through the random admission of warm candidates whatever the comparison does
	vC09Run(tr, "heavyhot_c1000_h20", vC09Cfg{cap: 1000, kind: "hot", mixed: true, heavy: 20, hotFrac: 2, reqs: 20000}, 10070)
	n++
	vSummary(out, "c09.json", map[string]any{"runs": n, "events": tr.n})
}
