package internal

// Doorkeeper Bloom filter harness (C06): the real bf.Bloomfilter is driven with Insert / Exist /
// Reset / EnsureCapacity over adversarial and random hashes; every call is logged with its result,
// the filter geometry (M, K) and the number of set bits. TLC replays the calls on Bloom.tla
// (BloomTrace), compares result and population, and reports a false negative (a hash inserted
// since the last clearing that is reported absent).

import (
	"fmt"
	"math/bits"
	"path/filepath"
	"testing"

	"github.com/Yiling-J/theine-go/internal/bf"
)

func vBloomPop(d *bf.Bloomfilter) int {
	n := 0
	for _, w := range d.Filter {
		n += bits.OnesCount64(w)
	}
	return n
}

func vBloomRun(tr *vTrace, id string, salt int64) {
	rnd := vRand(salt)
	d := bf.New([]float64{0.01, 0.001, 0.1}[rnd.Intn(3)])
	tr.Emit(vRec{"ev": "reset", "id": id, "m": int(d.M), "k": int(d.K), "mode": "bloom"})
	// a pool of hashes: colliding halves, zero halves, halves that differ only above the mask, random ones
	var pool []uint64
	for i := 0; i < 24; i++ {
		var h1, h2 uint32
		switch rnd.Intn(5) {
		case 0:
			h1, h2 = uint32(rnd.Intn(4)), uint32(rnd.Intn(4))
		case 1:
			h1, h2 = uint32(rnd.Intn(8))<<20|uint32(rnd.Intn(3)), 0
		case 2:
			h1, h2 = uint32(rnd.Uint32()), uint32(rnd.Intn(2))*d.M
		default:
			h1, h2 = rnd.Uint32(), rnd.Uint32()
		}
		pool = append(pool, uint64(h2)<<32|uint64(h1))
	}
	nops := 60 + rnd.Intn(120)
	for i := 0; i < nops; i++ {
		h := pool[rnd.Intn(len(pool))]
		if rnd.Intn(6) == 0 {
			h = uint64(rnd.Uint32())<<32 | uint64(rnd.Uint32())
		}
		m := uint64(d.M)
		a, b := int(uint64(uint32(h))%m), int(uint64(uint32(h>>32))%m)
		switch x := rnd.Intn(100); {
		case x < 50:
			r := d.Insert(h)
			tr.Emit(vRec{"ev": "op", "op": "insert", "a": a, "b": b, "h": fmt.Sprint(h), "r": vb(r), "m": int(d.M), "k": int(d.K), "pop": vBloomPop(d)})
		case x < 90:
			r := d.Exist(h)
			tr.Emit(vRec{"ev": "op", "op": "exist", "a": a, "b": b, "h": fmt.Sprint(h), "r": vb(r), "m": int(d.M), "k": int(d.K), "pop": vBloomPop(d)})
		case x < 95:
			d.Reset()
			tr.Emit(vRec{"ev": "op", "op": "reset", "a": 0, "b": 0, "h": "", "r": 0, "m": int(d.M), "k": int(d.K), "pop": vBloomPop(d)})
		default:
			c := []int{100, 320, 500, 600, 1500, 5000}[rnd.Intn(6)]
			before := d.Capacity
			d.EnsureCapacity(c)
			tr.Emit(vRec{"ev": "op", "op": "ensure", "a": c, "b": vb(c > before), "h": "", "r": 0, "m": int(d.M), "k": int(d.K), "pop": vBloomPop(d)})
		}
	}
	tr.Emit(vRec{"ev": "end"})
}

func TestVerif_Bloom(t *testing.T) {
	out := vOutDir(t)
	tr := vNewTrace(filepath.Join(out, "bloom.ndjson"))
	defer tr.Close()
	n := vEnvInt("VERIF_N", 40)
	base := int64(vEnvInt("VERIF_SEED", 1)) * 7919
	for i := 0; i < n; i++ {
		vBloomRun(tr, fmt.Sprintf("bloom%d", i), base+int64(i))
	}
	vSummary(out, "bloom.json", map[string]any{"runs": n, "events": tr.n})
}
