package internal

// C04 in real time: everything else drives the maintenance ticker itself (virtual clock, ticker reset by the
// harness), so the period the code chooses for its ticker is never observed. Here nothing is controlled: real
// clock, the code's own ticker, no hook handler. Stores are left idle (nothing with a deadline) for a while, or
// kept busy, then entries with a TTL of about one second are set and the removal listener's EXPIRED
// notifications are timed. RealTick.tla judges the lateness of every entry.

import (
	"fmt"
	"path/filepath"
	"sync"
	"testing"
	"time"
)

type vRtRec struct {
	k      int
	setAt  time.Time
	ttl    time.Duration
	expAt  time.Time
	reason RemoveReason
	seen   bool
}

func vRealTickScenario(tr *vTrace, id int, idle time.Duration, rounds int, gap time.Duration, ttl time.Duration) {
	var mu sync.Mutex
	recs := map[int]*vRtRec{}
	st := NewStore[int, int](&StoreOptions[int, int]{MaxSize: 1000, Listener: func(k int, v int, r RemoveReason) {
		now := time.Now()
		mu.Lock()
		if x := recs[k]; x != nil && !x.seen {
			x.seen, x.expAt, x.reason = true, now, r
		}
		mu.Unlock()
	}})
	defer st.Close()
	t0 := time.Now()
	st.Set(-1, 0, 1, 0) // something without a deadline
	time.Sleep(idle)
	key := 0
	for r := 0; r < rounds; r++ {
		for j := 0; j < 3; j++ {
			key++
			x := &vRtRec{k: key, ttl: ttl + time.Duration(j)*137*time.Millisecond}
			mu.Lock()
			recs[key] = x
			mu.Unlock()
			x.setAt = time.Now()
			st.Set(key, key, 1, x.ttl)
		}
		if r < rounds-1 {
			time.Sleep(gap)
		}
	}
	// longest wait the property allows, plus slack for a loaded machine
	time.Sleep(ttl + 3*137*time.Millisecond + 3400*time.Millisecond)
	mu.Lock()
	defer mu.Unlock()
	tr.Emit(vRec{"op": "new", "id": id, "idle_ms": idle.Milliseconds(), "rounds": rounds, "gap_ms": gap.Milliseconds()})
	for k := 1; k <= key; k++ {
		x := recs[k]
		late := int64(-1)
		if x.seen {
			// measured from the earliest moment the deadline can lie at (the clock is read inside Set, after setAt)
			late = x.expAt.Sub(x.setAt.Add(x.ttl)).Milliseconds()
		}
		tr.Emit(vRec{"op": "entry", "k": k, "set_ms": x.setAt.Sub(t0).Milliseconds(), "ttl_ms": x.ttl.Milliseconds(),
			"seen": vb(x.seen), "reason": int(x.reason), "late_ms": late})
	}
}

// TestVerif_C04RealTick: idle periods of different lengths before the first deadline, and a busy store.
func TestVerif_C04RealTick(t *testing.T) {
	out := vOutDir(t)
	vStoreMu.Lock()
	defer vStoreMu.Unlock()
	tr := vNewTrace(filepath.Join(out, "realtick.ndjson"))
	defer tr.Close()
	idleMax := time.Duration(vEnvInt("VERIF_IDLE_MS", 8500)) * time.Millisecond
	type sc struct {
		idle   time.Duration
		rounds int
		gap    time.Duration
	}
	scs := []sc{{idleMax, 1, 0}, {idleMax / 2, 2, 1300 * time.Millisecond}, {0, 5, 700 * time.Millisecond}, {2500 * time.Millisecond, 1, 0}}
	var wg sync.WaitGroup
	for i, s := range scs {
		wg.Add(1)
		go func(i int, s sc) {
			defer wg.Done()
			vRealTickScenario(tr, i+1, s.idle, s.rounds, s.gap, 1*time.Second)
		}(i, s)
	}
	wg.Wait()
	vSummary(out, "realtick.summary.json", map[string]any{"scenarios": len(scs), "note": fmt.Sprint(idleMax)})
}
