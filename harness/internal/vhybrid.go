package internal

// C14 / C15 harness: a store with a scripted secondary cache (logs every call, fails on command),
// driven under the virtual clock by a sequential client with the secondary workers running
// concurrently (completion counted through the verif hooks, so the driver can wait for demotion
// without sleeping). All API calls, secondary-store calls and store hook events are logged; TLC
// validates freshness (C14) and demotion / memory bound (C15) with HybridTrace.

import (
	"context"
	"errors"
	"fmt"
	"path/filepath"
	"sync"
	"sync/atomic"
	"testing"
	"time"
)

type vSecEnt struct {
	v      int
	cost   int64
	expire int64
}

type vSec struct {
	mu       sync.Mutex
	m        map[int]vSecEnt
	h        *vH
	failSet  atomic.Int32 // fail the next n Set calls
	failAll  atomic.Bool
	slow     atomic.Bool
	errCount atomic.Int64
	hold     atomic.Bool   // Set calls wait on holdCh (a stalled secondary store)
	holdCh   chan struct{} // closed to let them go
	hoMu     sync.Mutex
	hoKeys   []int // keys handed to the workers, in order
	takes    atomic.Int64
	stallGet atomic.Bool   // the next Get stalls after it has read the store (slow I/O)
	stalled  chan struct{} // closed when it is stalling
	stallCh  chan struct{} // closed to let it go
	stallDel atomic.Bool   // the next Delete stalls before it reaches the store (slow I/O)
	stalledD chan struct{} // closed when it is stalling
	stallDCh chan struct{} // closed to let it go
}

func (s *vSec) Get(key int) (int, int64, int64, bool, error) {
	s.mu.Lock()
	e, ok := s.m[key]
	s.mu.Unlock()
	s.h.tr.Emit(vRec{"ev": "sec", "op": "get", "k": key, "v": e.v, "dl": s.h.uX(e.expire), "ok": vb(ok)})
	if s.stallGet.CompareAndSwap(true, false) {
		close(s.stalled)
		<-s.stallCh
	}
	if !ok {
		return 0, 0, 0, false, nil
	}
	return e.v, e.cost, e.expire, true, nil
}

func (s *vSec) Set(key int, value int, cost int64, expire int64) error {
	if s.hold.Load() {
		<-s.holdCh
	}
	if s.failAll.Load() || s.failSet.Load() > 0 {
		if !s.failAll.Load() {
			s.failSet.Add(-1)
		}
		s.h.tr.Emit(vRec{"ev": "sec", "op": "set", "k": key, "v": value, "dl": s.h.uX(expire), "ok": 0})
		return errors.New("secondary set failed")
	}
	if s.slow.Load() && value%2 == 0 {
		time.Sleep(time.Duration(50+value%7*40) * time.Microsecond) // a slow secondary store
	}
	s.mu.Lock()
	s.m[key] = vSecEnt{v: value, cost: cost, expire: expire}
	s.mu.Unlock()
	s.h.tr.Emit(vRec{"ev": "sec", "op": "set", "k": key, "v": value, "dl": s.h.uX(expire), "ok": 1})
	return nil
}

func (s *vSec) Delete(key int) error {
	if s.stallDel.CompareAndSwap(true, false) {
		close(s.stalledD)
		<-s.stallDCh
	}
	s.mu.Lock()
	_, ok := s.m[key]
	delete(s.m, key)
	s.mu.Unlock()
	s.h.tr.Emit(vRec{"ev": "sec", "op": "del", "k": key, "v": 0, "dl": 0, "ok": vb(ok)})
	return nil
}

func (s *vSec) HandleAsyncError(err error) {
	if err != nil {
		s.errCount.Add(1)
		s.h.tr.Emit(vRec{"ev": "secerr"})
	}
}

func (h *vH) uX(x int64) int64 {
	if x == 0 {
		return 0
	}
	d := h.u(x)
	if d == 0 {
		d = 1
	}
	return d
}

// vNewHybrid builds a store with the scripted secondary cache; the handler also counts hand-offs
// and finished worker items.
var vHybridPool bool // next hybrid store is built with the entry pool on

func vNewHybrid(tr *vTrace, maxsize int64, loading bool, start int64) (*vH, *vSec) {
	h := &vH{tr: tr, ids: map[*Entry[int, int]]int{}, procs: map[int64]string{}, parked: map[string]*vPark{},
		arrive: make(chan struct{}, 4096), shift: 20}
	h.vnow.Store(start << 20)
	sec := &vSec{m: map[int]vSecEnt{}, h: h}
	vInstallClock(h)
	var hd VerifHandler = func(point int, a, b, c any, n []int64) {
		if st, ok := a.(*Store[int, int]); ok && st == h.store { // not a worker of an earlier, abandoned store
			switch point {
			case VpHandoff:
				h.handoffs.Add(1)
				sec.hoMu.Lock()
				sec.hoKeys = append(sec.hoKeys, En0(vEntry(b)))
				sec.hoMu.Unlock()
			case VpSecDone:
				h.secDone.Add(1)
			case VpSecTake:
				sec.takes.Add(1)
			}
		}
		h.handle(point, a, b, c, n)
		switch point {
		case VpSecCheck:
			if p, ok := h.procOf(point, a); ok {
				tr.Emit(vRec{"ev": "seccheck", "p": p, "e": h.id(vEntry(b), false), "exist": vN(n, 0)})
			}
		case VpSecDel:
			if p, ok := h.procOf(point, a); ok {
				e := vEntry(b)
				o := En0(e)
				tr.Emit(vRec{"ev": "secdel", "p": p, "e": h.id(e, false), "k": o, "deleted": vN(n, 0)})
			}
		}
	}
	SetVerifHandler(hd)
	opts := &StoreOptions[int, int]{MaxSize: maxsize, SecondaryCache: sec, Workers: 2, Probability: 1, EntryPool: vHybridPool,
		Listener: func(key int, value int, reason RemoveReason) {
			p, ok := h.procOf(0, nil)
			if !ok {
				p = "?"
			}
			tr.Emit(vRec{"ev": "notify", "p": p, "k": key, "v": value, "reason": vReasonNames[int64(reason)]})
		}}
	s := NewStore[int, int](opts)
	h.mu.Lock()
	h.store = s
	h.mu.Unlock()
	for i := 0; i < 2000; i++ { // the ticker goroutine creates the ticker under policyMu
		s.policyMu.Lock()
		tk := s.maintenanceTicker
		s.policyMu.Unlock()
		if tk != nil {
			h.ticker = tk
			break
		}
		time.Sleep(100 * time.Microsecond)
	}
	if loading {
		h.lstore = NewLoadingStore[int, int](s)
		h.lstore.Loader(func(ctx context.Context, key int) (Loaded[int], error) {
			p, _ := h.procOf(0, nil)
			v := int(h.val.Add(1))
			ttl := int64(0)
			if v%3 == 0 {
				ttl = 2000
			}
			tr.Emit(vRec{"ev": "load", "p": p, "k": key, "v": v, "cost": 1, "ttl": ttl, "err": 0, "t": h.nowU()})
			tr.Emit(vRec{"ev": "loadend", "p": p, "k": key, "o": "ok"})
			return Loaded[int]{Value: v, Cost: 1, TTL: time.Duration(ttl << 20)}, nil
		})
	}
	return h, sec
}

func En0(e *Entry[int, int]) int {
	if e == nil {
		return 0
	}
	return e.key
}

// settle waits until the write queue is drained and the secondary workers have finished every
// entry handed to them.
func (h *vH) settleHybrid() bool {
	for round := 0; round < 3; round++ {
		if !vTimed(3*time.Second, h.store.Wait) {
			return false
		}
		ok := h.waitFor(func() bool { return h.secDone.Load() >= h.handoffs.Load() && len(h.store.secondaryCacheBuf) == 0 }, 3*time.Second)
		if !ok {
			return false
		}
	}
	return true
}

// acct summarises, at a settled point (write queue drained, workers idle), how the eviction policy's view
// compares with the shard maps: resident entries in no policy list, policy entries that are not resident,
// the policy total against the resident cost.
func (h *vH) acct() (untracked, ghost int, ws, rcost int64) {
	s := h.store
	s.policyMu.Lock()
	defer s.policyMu.Unlock()
	resident := map[*Entry[int, int]]bool{}
	s.RangeEntry(func(e *Entry[int, int]) {
		resident[e] = true
		rcost += e.weight.Load()
	})
	tracked := map[*Entry[int, int]]bool{}
	for _, l := range []*List[int, int]{s.policy.window, s.policy.slru.probation, s.policy.slru.protected} {
		n := 0
		for e := l.Front(); e != nil && n < 100000; e = e.Next(l.listType) {
			tracked[e] = true
			if !resident[e] {
				ghost++
			}
			n++
		}
	}
	for e := range resident {
		if !tracked[e] {
			untracked++
		}
	}
	return untracked, ghost, int64(s.policy.weightedSize), rcost
}

func (h *vH) emitSettled(sec *vSec) {
	u, g, ws, rc := h.acct()
	h.tr.Emit(vRec{"ev": "settled", "resident": h.store.Len(), "errs": sec.errCount.Load(), "untracked": u, "ghost": g, "ws": ws, "rcost": rc})
}

func vHybridRun(tr *vTrace, id string, salt int64) (hang bool) {
	rnd := vRand(salt)
	maxsize := int64(2 + rnd.Intn(5))
	loading := rnd.Intn(3) == 0
	failing := rnd.Intn(4) == 0
	start := int64(1 + rnd.Intn(5000))
	tr.Emit(vRec{"ev": "reset", "id": id, "maxsize": maxsize, "pool": vb(salt%4 == 3), "door": 0, "loading": vb(loading), "mode": "hybrid",
		"qcap": WriteChanSize, "t": start, "thresh": vThresh(20), "tick": vTickU(20), "failing": vb(failing)})
	before := vStoreGoroutines()
	vHybridPool = salt%4 == 3 // one history in four: entry pool on (entry objects are recycled between keys)
	h, sec := vNewHybrid(tr, maxsize, loading, start)
	vHybridPool = false
	defer func() {
		h.quiet.Store(true)
		vDeadStores.Store(h.store, true)
		vTimed(2*time.Second, h.store.Close)
		SetVerifHandler(nil)
		vRemoveClock()
	}()
	c := h.client("c1")
	un := c.register()
	defer un()
	busy := rnd.Intn(2) == 0 // operations pile up on the workers: slow secondary store, rare settling
	sec.slow.Store(busy)
	keys := int(maxsize) + 2 + rnd.Intn(4)
	ttls := []int64{0, 0, 0, 900, 3000, 100000}
	hget := func(k int) {
		tr.Emit(vRec{"ev": "call", "p": c.name, "op": "hget", "k": k, "v": 0, "cost": 0, "ttl": 0, "t": h.nowU()})
		var v int
		ok := false
		var err error
		if loading {
			v, err = h.lstore.Get(context.Background(), k)
			ok = err == nil
		} else {
			v, ok, err = h.store.GetWithSecodary(k)
		}
		code := 0
		if err != nil {
			code = 1
			if errors.Is(err, ErrCacheClosed) {
				code = 2
			}
		}
		tr.Emit(vRec{"ev": "ret", "p": c.name, "op": "hget", "ok": vb(ok), "v": v, "n": code, "n2": 0})
	}
	hdel := func(k int) {
		tr.Emit(vRec{"ev": "call", "p": c.name, "op": "hdel", "k": k, "v": 0, "cost": 0, "ttl": 0, "t": h.nowU()})
		err := h.store.DeleteWithSecondary(k)
		tr.Emit(vRec{"ev": "ret", "p": c.name, "op": "hdel", "ok": vb(err == nil), "v": 0, "n": 0, "n2": 0})
	}
	nops := 40 + rnd.Intn(40)
	for i := 0; i < nops; i++ {
		k := 1 + rnd.Intn(keys)
		switch x := rnd.Intn(100); {
		case x < 40:
			c.Set(k, 1, ttls[rnd.Intn(len(ttls))])
		case x < 75:
			hget(k)
		case x < 85:
			hdel(k)
		case x < 93:
			h.advanceTicking(int64(300+rnd.Intn(3000))<<20, int64(rnd.Intn(1000))<<20, true)
		default:
			if failing {
				sec.failSet.Store(int32(1 + rnd.Intn(3)))
			}
		}
		if (!busy && rnd.Intn(3) != 0) || (busy && rnd.Intn(6) == 0) {
			if !h.settleHybrid() {
				tr.Emit(vRec{"ev": "hang", "p": "c1", "op": "settle"})
				return true
			}
			h.emitSettled(sec)
		}
	}
	if !h.settleHybrid() {
		tr.Emit(vRec{"ev": "hang", "p": "c1", "op": "settle"})
		return true
	}
	h.emitSettled(sec)
	// every key once more, after everything has settled
	tr.Emit(vRec{"ev": "final"})
	for k := 1; k <= keys; k++ {
		hget(k)
	}
	// C10 on the hybrid cache: Close, then nothing is served (also not out of the secondary tier), writes
	// have no effect and the maintenance, ticker and worker goroutines are gone
	tr.Emit(vRec{"ev": "call", "p": c.name, "op": "close", "k": 0, "v": 0, "cost": 0, "ttl": 0, "t": h.nowU()})
	if !c.timed(4*time.Second, h.store.Close) {
		tr.Emit(vRec{"ev": "hang", "p": "c1", "op": "close"})
		return true
	}
	tr.Emit(vRec{"ev": "ret", "p": c.name, "op": "close", "ok": 1, "v": 0, "n": 0, "n2": 0})
	for k := 1; k <= keys; k++ {
		k := k
		if !c.timed(4*time.Second, func() {
			if k%2 == 0 {
				c.Set(k, 1, 0)
			}
			hget(k)
		}) {
			tr.Emit(vRec{"ev": "hang", "p": "c1", "op": "hget"})
			return true
		}
	}
	after := vStoreGoroutines()
	for i := 0; i < 200 && after > before; i++ {
		time.Sleep(5 * time.Millisecond)
		after = vStoreGoroutines()
	}
	tr.Emit(vRec{"ev": "census", "before": before, "after": after})
	tr.Emit(vRec{"ev": "end", "stuck": 0, "skipped": 0})
	return false
}

// vHybridLateJoin: the hybrid Get's single-flight call (vgroup) is held between the end of its critical
// section (secondary copy promoted into memory, shard released) and its removal from the group's table.
// Meanwhile the key is deleted from both tiers (or its deadline passes). A Get that arrives now misses in
// memory; it must look the key up again, not join the finished call (D21, C14). The held Get is not logged
// as a call of the sequential client (its secondary read and promotion events are).
func vHybridLateJoin(tr *vTrace, id string, salt int64) (hang bool) {
	rnd := vRand(salt)
	start := int64(1 + rnd.Intn(5000))
	expiry := salt%2 == 1
	tr.Emit(vRec{"ev": "reset", "id": id, "maxsize": 2, "pool": 0, "door": 0, "loading": 0, "mode": "hybrid",
		"qcap": WriteChanSize, "t": start, "thresh": vThresh(20), "tick": vTickU(20), "failing": 0})
	h, sec := vNewHybrid(tr, 2, false, start)
	defer func() {
		h.quiet.Store(true)
		vDeadStores.Store(h.store, true)
		vTimed(2*time.Second, h.store.Close)
		SetVerifHandler(nil)
		vRemoveClock()
	}()
	c := h.client("c1")
	un := c.register()
	defer un()
	ttl := int64(0)
	if expiry {
		ttl = 900
	}
	for k := 1; k <= 5; k++ {
		c.Set(k, 1, ttl)
		if !h.settleHybrid() {
			tr.Emit(vRec{"ev": "hang", "p": "c1", "op": "settle"})
			return true
		}
	}
	h.emitSettled(sec)
	k := 0
	for x := 1; x <= 5 && k == 0; x++ {
		sec.mu.Lock()
		_, insec := sec.m[x]
		sec.mu.Unlock()
		_, idx := h.store.index(x)
		sh := h.store.shards[idx]
		tk := sh.mu.RLock()
		_, inmem := sh.hashmap[x]
		sh.mu.RUnlock(tk)
		if insec && !inmem {
			k = x
		}
	}
	if k == 0 {
		tr.Emit(vRec{"ev": "end", "stuck": 1, "skipped": 0})
		return false
	}
	h.sfReached = make(chan struct{})
	h.sfHold = make(chan struct{})
	h.sfArm.Store(true)
	released := false
	release := func() {
		if !released {
			released = true
			h.sfArm.Store(false)
			close(h.sfHold)
		}
	}
	defer release()
	adone := make(chan struct{})
	go func() {
		a := h.client("c2")
		una := a.register()
		h.store.GetWithSecodary(k)
		una()
		close(adone)
	}()
	select {
	case <-h.sfReached:
	case <-time.After(3 * time.Second):
		release()
		<-adone
		tr.Emit(vRec{"ev": "end", "stuck": 1, "skipped": 0})
		return false
	}
	if expiry {
		h.advance(1000)
	} else {
		tr.Emit(vRec{"ev": "call", "p": c.name, "op": "hdel", "k": k, "v": 0, "cost": 0, "ttl": 0, "t": h.nowU()})
		err := h.store.DeleteWithSecondary(k)
		tr.Emit(vRec{"ev": "ret", "p": c.name, "op": "hdel", "ok": vb(err == nil), "v": 0, "n": 0, "n2": 0})
	}
	tr.Emit(vRec{"ev": "call", "p": c.name, "op": "hget", "k": k, "v": 0, "cost": 0, "ttl": 0, "t": h.nowU()})
	type res struct {
		v  int
		ok bool
	}
	cdone := make(chan res, 1)
	go func() {
		b := h.client("c3")
		unb := b.register()
		v, ok, _ := h.store.GetWithSecodary(k)
		unb()
		cdone <- res{v, ok}
	}()
	var r res
	got := false
	select {
	case r = <-cdone:
		got = true
	case <-time.After(150 * time.Millisecond):
	}
	release()
	if !got {
		select {
		case r = <-cdone:
		case <-time.After(5 * time.Second):
			tr.Emit(vRec{"ev": "hang", "p": "c1", "op": "hget"})
			return true
		}
	}
	tr.Emit(vRec{"ev": "ret", "p": c.name, "op": "hget", "ok": vb(r.ok), "v": r.v, "n": 0, "n2": 0})
	select {
	case <-adone:
	case <-time.After(5 * time.Second):
		tr.Emit(vRec{"ev": "hang", "p": "c1", "op": "hget"})
		return true
	}
	if !h.settleHybrid() {
		tr.Emit(vRec{"ev": "hang", "p": "c1", "op": "settle"})
		return true
	}
	h.emitSettled(sec)
	tr.Emit(vRec{"ev": "end", "stuck": 0, "skipped": 0})
	return false
}

// vHybridSlotReplaced: the secondary store stalls, so evicted entries pile up in the hand-off queue; the key of
// one that is still queued is deleted and set again, then the workers go on. The worker must deal with the entry
// it was handed (by identity), not with whatever entry the key's slot holds by then (C02/C15).
func vHybridSlotReplaced(tr *vTrace, id string, salt int64) (hang bool) {
	rnd := vRand(salt)
	start := int64(1 + rnd.Intn(5000))
	maxsize := int64(2 + rnd.Intn(3))
	tr.Emit(vRec{"ev": "reset", "id": id, "maxsize": maxsize, "pool": 0, "door": 0, "loading": 0, "mode": "hybrid",
		"qcap": WriteChanSize, "t": start, "thresh": vThresh(20), "tick": vTickU(20), "failing": 0})
	h, sec := vNewHybrid(tr, maxsize, false, start)
	defer func() {
		h.quiet.Store(true)
		vDeadStores.Store(h.store, true)
		vTimed(2*time.Second, h.store.Close)
		SetVerifHandler(nil)
		vRemoveClock()
	}()
	c := h.client("c1")
	un := c.register()
	defer un()
	sec.holdCh = make(chan struct{})
	sec.hold.Store(true)
	released := false
	release := func() {
		if !released {
			released = true
			sec.hold.Store(false)
			close(sec.holdCh)
		}
	}
	defer release()
	// fill until at least three evicted entries have been handed over (two workers are stuck in the store)
	k := 0
	for k = 1; k <= 40 && h.handoffs.Load() < 3; k++ {
		c.Set(k, 1, 0)
		if !vTimed(3*time.Second, h.store.Wait) {
			tr.Emit(vRec{"ev": "hang", "p": "c1", "op": "wait"})
			return true
		}
	}
	sec.hoMu.Lock()
	n := len(sec.hoKeys)
	victim := 0
	if n >= 3 {
		victim = sec.hoKeys[n-1]
	}
	sec.hoMu.Unlock()
	if victim == 0 {
		release()
		tr.Emit(vRec{"ev": "end", "stuck": 1, "skipped": 0})
		return false
	}
	tr.Emit(vRec{"ev": "call", "p": c.name, "op": "hdel", "k": victim, "v": 0, "cost": 0, "ttl": 0, "t": h.nowU()})
	err := h.store.DeleteWithSecondary(victim)
	tr.Emit(vRec{"ev": "ret", "p": c.name, "op": "hdel", "ok": vb(err == nil), "v": 0, "n": 0, "n2": 0})
	c.Set(victim, 1, 0)
	vTimed(3*time.Second, h.store.Wait)
	release()
	if !h.settleHybrid() {
		tr.Emit(vRec{"ev": "hang", "p": "c1", "op": "settle"})
		return true
	}
	h.emitSettled(sec)
	tr.Emit(vRec{"ev": "end", "stuck": 0, "skipped": 0})
	return false
}

// vHybridUpdateBeforeCopy: an entry is evicted and handed to a worker while its shard is write-locked by
// somebody who then updates the entry in place (new value, shorter TTL) - the window a Set leaves between the
// worker taking the item and the worker obtaining the shard's read lock. The copy the worker writes must pair
// the value with that value's deadline: after the new deadline the key is gone from both tiers (C14/C03).
// The shard lock is held white-box by the harness, which performs the steps of the Set itself.
func vHybridUpdateBeforeCopy(tr *vTrace, id string, salt int64) (hang bool) {
	rnd := vRand(salt)
	start := int64(1 + rnd.Intn(5000))
	tr.Emit(vRec{"ev": "reset", "id": id, "maxsize": 4, "pool": 0, "door": 0, "loading": 0, "mode": "hybrid",
		"qcap": WriteChanSize, "t": start, "thresh": vThresh(20), "tick": vTickU(20), "failing": 0})
	h, sec := vNewHybrid(tr, 4, false, start)
	defer func() {
		h.quiet.Store(true)
		vDeadStores.Store(h.store, true)
		vTimed(2*time.Second, h.store.Close)
		SetVerifHandler(nil)
		vRemoveClock()
	}()
	c := h.client("c1")
	un := c.register()
	defer un()
	s := h.store
	k := 1 + rnd.Intn(3)
	c.Set(k, 1, 100000)
	if !h.settleHybrid() {
		tr.Emit(vRec{"ev": "hang", "p": "c1", "op": "settle"})
		return true
	}
	hash, idx := s.index(k)
	sh := s.shards[idx]
	tk := sh.mu.RLock()
	e, ok := sh.get(k)
	sh.mu.RUnlock(tk)
	if !ok {
		tr.Emit(vRec{"ev": "end", "stuck": 1, "skipped": 0})
		return false
	}
	takes := sec.takes.Load()
	// the Set: shard write lock ...
	v2 := int(h.val.Add(1))
	ttl2 := int64(900)
	tr.Emit(vRec{"ev": "call", "p": c.name, "op": "set", "k": k, "v": v2, "cost": 1, "ttl": ttl2, "t": h.nowU()})
	sh.mu.Lock()
	// ... while it is held the policy evicts the entry and a worker takes it from the hand-off queue
	s.policyMu.Lock()
	s.removeEntry(e, EVICTED)
	s.policyMu.Unlock()
	h.waitFor(func() bool { return sec.takes.Load() > takes }, 2*time.Second)
	time.Sleep(3 * time.Millisecond) // the worker is now waiting for the shard's read lock
	expire2 := s.timerwheel.clock.ExpireNano(time.Duration(ttl2 << 20))
	res := s.setShardWithoutLock(sh, hash, k, v2, 1, expire2, false)
	sh.mu.Unlock()
	s.toPolicy(res, sh, hash, 1, expire2, false)
	tr.Emit(vRec{"ev": "ret", "p": c.name, "op": "set", "ok": 1, "v": 0, "n": 0, "n2": 0})
	if !h.settleHybrid() {
		tr.Emit(vRec{"ev": "hang", "p": "c1", "op": "settle"})
		return true
	}
	h.emitSettled(sec)
	hget := func() {
		tr.Emit(vRec{"ev": "call", "p": c.name, "op": "hget", "k": k, "v": 0, "cost": 0, "ttl": 0, "t": h.nowU()})
		v, ok, err := s.GetWithSecodary(k)
		code := 0
		if err != nil {
			code = 1
		}
		tr.Emit(vRec{"ev": "ret", "p": c.name, "op": "hget", "ok": vb(ok), "v": v, "n": code, "n2": 0})
	}
	hget()
	h.advanceTicking(int64(1200)<<20, 0, true)
	hget()
	hget()
	tr.Emit(vRec{"ev": "end", "stuck": 0, "skipped": 0})
	return false
}

// vHybridStalledGet: a hybrid Get whose read of the secondary store is slow (it stalls after the store has
// answered). variant 0: the key lives in the secondary tier only and is deleted meanwhile - the stalled Get must
// not bring the deleted value back (C14). variant 1: the key lives nowhere (the store answers "not found"); it
// is then set, evicted and written to the secondary tier - a Get that starts after that must find it (C15).
// On the code as it is the shard stays write-locked during the read, so the other calls simply wait; they run
// on a helper goroutine and the stalled Get is released after 150 ms at the latest. The stalled Get is not
// logged as a call of the sequential client.
func vHybridStalledGet(tr *vTrace, id string, salt int64) (hang bool) {
	rnd := vRand(salt)
	start := int64(1 + rnd.Intn(5000))
	variant := int(salt % 2)
	tr.Emit(vRec{"ev": "reset", "id": id, "maxsize": 2, "pool": 0, "door": 0, "loading": 0, "mode": "hybrid",
		"qcap": WriteChanSize, "t": start, "thresh": vThresh(20), "tick": vTickU(20), "failing": 0})
	h, sec := vNewHybrid(tr, 2, false, start)
	defer func() {
		h.quiet.Store(true)
		vDeadStores.Store(h.store, true)
		vTimed(2*time.Second, h.store.Close)
		SetVerifHandler(nil)
		vRemoveClock()
	}()
	c := h.client("c1")
	un := c.register()
	defer un()
	s := h.store
	k := 0
	if variant == 0 {
		for x := 1; x <= 5; x++ {
			c.Set(x, 1, 0)
			if !h.settleHybrid() {
				tr.Emit(vRec{"ev": "hang", "p": "c1", "op": "settle"})
				return true
			}
		}
		for x := 1; x <= 5 && k == 0; x++ {
			sec.mu.Lock()
			_, insec := sec.m[x]
			sec.mu.Unlock()
			_, idx := s.index(x)
			sh := s.shards[idx]
			tk := sh.mu.RLock()
			_, inmem := sh.hashmap[x]
			sh.mu.RUnlock(tk)
			if insec && !inmem {
				k = x
			}
		}
		if k == 0 {
			tr.Emit(vRec{"ev": "end", "stuck": 1, "skipped": 0})
			return false
		}
	} else {
		k = 9
	}
	sec.stalled = make(chan struct{})
	sec.stallCh = make(chan struct{})
	sec.stallGet.Store(true)
	released := false
	release := func() {
		if !released {
			released = true
			sec.stallGet.Store(false)
			close(sec.stallCh)
		}
	}
	defer release()
	adone := make(chan struct{})
	go func() {
		a := h.client("c2")
		una := a.register()
		s.GetWithSecodary(k)
		una()
		close(adone)
	}()
	select {
	case <-sec.stalled:
	case <-time.After(3 * time.Second):
		release()
		<-adone
		tr.Emit(vRec{"ev": "end", "stuck": 1, "skipped": 0})
		return false
	}
	hget := func(x int) {
		tr.Emit(vRec{"ev": "call", "p": c.name, "op": "hget", "k": x, "v": 0, "cost": 0, "ttl": 0, "t": h.nowU()})
		v, ok, err := s.GetWithSecodary(x)
		code := 0
		if err != nil {
			code = 1
		}
		tr.Emit(vRec{"ev": "ret", "p": c.name, "op": "hget", "ok": vb(ok), "v": v, "n": code, "n2": 0})
	}
	bdone := make(chan bool, 1)
	go func() {
		b := h.client("c1")
		unb := b.register()
		defer unb()
		if variant == 0 {
			tr.Emit(vRec{"ev": "call", "p": c.name, "op": "hdel", "k": k, "v": 0, "cost": 0, "ttl": 0, "t": h.nowU()})
			err := s.DeleteWithSecondary(k)
			tr.Emit(vRec{"ev": "ret", "p": c.name, "op": "hdel", "ok": vb(err == nil), "v": 0, "n": 0, "n2": 0})
		} else {
			b.Set(k, 1, 0)
			for x := 20; x < 26; x++ {
				b.Set(x, 1, 0)
			}
			if !h.settleHybrid() {
				bdone <- false
				return
			}
			// the key is in the secondary tier now (or still in memory): a Get that starts here finds it
			tr.Emit(vRec{"ev": "final"})
			hget(k)
		}
		bdone <- true
	}()
	var ok bool
	select {
	case ok = <-bdone:
	case <-time.After(150 * time.Millisecond):
		release()
		select {
		case ok = <-bdone:
		case <-time.After(8 * time.Second):
		}
	}
	release()
	select {
	case <-adone:
	case <-time.After(5 * time.Second):
		ok = false
	}
	if !ok {
		tr.Emit(vRec{"ev": "hang", "p": "c1", "op": "hget"})
		return true
	}
	if !h.settleHybrid() {
		tr.Emit(vRec{"ev": "hang", "p": "c1", "op": "settle"})
		return true
	}
	h.emitSettled(sec)
	tr.Emit(vRec{"ev": "final"})
	hget(k)
	tr.Emit(vRec{"ev": "end", "stuck": 0, "skipped": 0})
	return false
}

// vHybridStalledDelete: a hybrid Delete whose call into the secondary store is slow (it stalls before the store
// removes the key). The key lives in the secondary tier (variant 0) or in both tiers (variant 1: promoted by
// an earlier Get). While the Delete stalls another client reads the key: the read waits for the Delete (it needs
// the shard the Delete holds) or at least must not put the secondary copy back into memory. Decisive is the
// Get after both have returned: the Delete has completed, the key is absent from both tiers.
func vHybridStalledDelete(tr *vTrace, id string, salt int64) (hang bool) {
	rnd := vRand(salt)
	start := int64(1 + rnd.Intn(5000))
	variant := int(salt % 2)
	tr.Emit(vRec{"ev": "reset", "id": id, "maxsize": 2, "pool": 0, "door": 0, "loading": 0, "mode": "hybrid",
		"qcap": WriteChanSize, "t": start, "thresh": vThresh(20), "tick": vTickU(20), "failing": 0})
	h, sec := vNewHybrid(tr, 2, false, start)
	defer func() {
		h.quiet.Store(true)
		vDeadStores.Store(h.store, true)
		vTimed(2*time.Second, h.store.Close)
		SetVerifHandler(nil)
		vRemoveClock()
	}()
	c := h.client("c1")
	un := c.register()
	defer un()
	s := h.store
	hget := func(p string, x int) {
		tr.Emit(vRec{"ev": "call", "p": p, "op": "hget", "k": x, "v": 0, "cost": 0, "ttl": 0, "t": h.nowU()})
		v, ok, err := s.GetWithSecodary(x)
		code := 0
		if err != nil {
			code = 1
		}
		tr.Emit(vRec{"ev": "ret", "p": p, "op": "hget", "ok": vb(ok), "v": v, "n": code, "n2": 0})
	}
	for x := 1; x <= 5; x++ {
		c.Set(x, 1, 0)
		if !h.settleHybrid() {
			tr.Emit(vRec{"ev": "hang", "p": "c1", "op": "settle"})
			return true
		}
	}
	k := 0
	for x := 1; x <= 5 && k == 0; x++ {
		sec.mu.Lock()
		_, insec := sec.m[x]
		sec.mu.Unlock()
		_, idx := s.index(x)
		sh := s.shards[idx]
		tk := sh.mu.RLock()
		_, inmem := sh.hashmap[x]
		sh.mu.RUnlock(tk)
		if insec && !inmem {
			k = x
		}
	}
	if k == 0 {
		tr.Emit(vRec{"ev": "end", "stuck": 1, "skipped": 0})
		return false
	}
	if variant == 1 {
		hget(c.name, k) // promoted: the key is in memory and its copy is still in the secondary tier
		if !h.settleHybrid() {
			tr.Emit(vRec{"ev": "hang", "p": "c1", "op": "settle"})
			return true
		}
	}
	sec.stalledD = make(chan struct{})
	sec.stallDCh = make(chan struct{})
	sec.stallDel.Store(true)
	released := false
	release := func() {
		if !released {
			released = true
			sec.stallDel.Store(false)
			close(sec.stallDCh)
		}
	}
	defer release()
	adone := make(chan struct{})
	go func() {
		a := h.client("c2")
		una := a.register()
		tr.Emit(vRec{"ev": "call", "p": a.name, "op": "hdel", "k": k, "v": 0, "cost": 0, "ttl": 0, "t": h.nowU()})
		err := s.DeleteWithSecondary(k)
		tr.Emit(vRec{"ev": "ret", "p": a.name, "op": "hdel", "ok": vb(err == nil), "v": 0, "n": 0, "n2": 0})
		una()
		close(adone)
	}()
	select {
	case <-sec.stalledD:
	case <-time.After(3 * time.Second):
		release()
		<-adone
		tr.Emit(vRec{"ev": "end", "stuck": 1, "skipped": 0})
		return false
	}
	bdone := make(chan struct{})
	go func() {
		b := h.client("c3")
		unb := b.register()
		hget(b.name, k)
		unb()
		close(bdone)
	}()
	select {
	case <-bdone:
	case <-time.After(60 * time.Millisecond):
	}
	release()
	for _, ch := range []chan struct{}{adone, bdone} {
		select {
		case <-ch:
		case <-time.After(5 * time.Second):
			tr.Emit(vRec{"ev": "hang", "p": "c2", "op": "hdel"})
			return true
		}
	}
	if !h.settleHybrid() {
		tr.Emit(vRec{"ev": "hang", "p": "c1", "op": "settle"})
		return true
	}
	h.emitSettled(sec)
	tr.Emit(vRec{"ev": "final"})
	hget(c.name, k)
	tr.Emit(vRec{"ev": "end", "stuck": 0, "skipped": 0})
	return false
}

func TestVerif_Hybrid(t *testing.T) {
	out := vOutDir(t)
	vStoreMu.Lock()
	defer vStoreMu.Unlock()
	tr := vNewTrace(filepath.Join(out, "hybrid.ndjson"))
	defer tr.Close()
	n := vEnvInt("VERIF_N", 30)
	hangs := 0
	for i := 0; i < n; i++ {
		if vHybridRun(tr, fmt.Sprintf("hy%d", i), int64(i)) {
			hangs++
			break
		}
	}
	for i := 0; i < 2+n/10 && hangs == 0; i++ {
		if vHybridLateJoin(tr, fmt.Sprintf("hylate%d", i), int64(i)) {
			hangs++
		}
	}
	for i := 0; i < 2+n/10 && hangs == 0; i++ {
		if vHybridSlotReplaced(tr, fmt.Sprintf("hyslot%d", i), int64(i)) {
			hangs++
		}
	}
	for i := 0; i < 2+n/10 && hangs == 0; i++ {
		if vHybridStalledGet(tr, fmt.Sprintf("hystall%d", i), int64(i)) {
			hangs++
		}
	}
	for i := 0; i < 2+n/10 && hangs == 0; i++ {
		if vHybridStalledDelete(tr, fmt.Sprintf("hystalldel%d", i), int64(i)) {
			hangs++
		}
	}
	for i := 0; i < 2+n/10 && hangs == 0; i++ {
		if vHybridUpdateBeforeCopy(tr, fmt.Sprintf("hyupd%d", i), int64(i)) {
			hangs++
		}
	}
	vSummary(out, "hybrid.json", map[string]any{"runs": n, "hangs": hangs, "events": tr.n})
}
