package internal

// List harness (C07 / C04): executes operation sequences on real List objects - the three region
// lists and two wheel slots sharing eight entries through the two link sets of Entry - and logs,
// after every call, what a reader of the structure sees: forward and backward traversal of every
// list, recorded len and count, every entry's flag byte and policy weight. ListTrace.tla performs
// the same calls on the pointer-grain specification (List.tla) and judges.

import (
	"fmt"
	"path/filepath"
	"testing"
)

const vListN = 8

type vListRun struct {
	tr    *vTrace
	ents  []*Entry[int, int]
	lists []*List[int, int]
}

var vListTypes = []uint8{LIST_WINDOW, LIST_PROBATION, LIST_PROTECTED, WHEEL_LIST, WHEEL_LIST}

func (r *vListRun) start(id int, src string, pw []int64) {
	r.ents = make([]*Entry[int, int], vListN+1)
	for i := 1; i <= vListN; i++ {
		r.ents[i] = NewEntry[int, int](i, i, pw[i-1], 0)
	}
	r.lists = make([]*List[int, int], len(vListTypes)+1)
	for i, tp := range vListTypes {
		r.lists[i+1] = NewList[int, int](0, tp)
	}
	r.tr.Emit(vRec{"op": "new", "id": id, "src": src, "pw": pw})
}

func (r *vListRun) idOf(e *Entry[int, int]) int {
	for i := 1; i <= vListN; i++ {
		if r.ents[i] == e {
			return i
		}
	}
	return 99
}

// walk follows raw links (not the Next/Prev helpers) so that a broken ring shows as it is; bounded.
func (r *vListRun) walk(l *List[int, int], fwd bool) []int {
	out := []int{}
	var e *Entry[int, int]
	if fwd {
		e = l.root.next(l.listType)
	} else {
		e = l.root.prev(l.listType)
	}
	for n := 0; e != nil && e != &l.root && n <= vListN+2; n++ {
		out = append(out, r.idOf(e))
		if fwd {
			e = e.next(l.listType)
		} else {
			e = e.prev(l.listType)
		}
	}
	return out
}

func (r *vListRun) state(rec vRec) vRec {
	fw := make([][]int, len(vListTypes))
	bw := make([][]int, len(vListTypes))
	ln := make([]int64, len(vListTypes))
	cn := make([]int, len(vListTypes))
	for i := range vListTypes {
		l := r.lists[i+1]
		fw[i] = r.walk(l, true)
		bw[i] = r.walk(l, false)
		ln[i] = l.len
		cn[i] = l.count
	}
	fl := make([]int, vListN)
	pw := make([]int64, vListN)
	for i := 1; i <= vListN; i++ {
		fl[i-1] = int(uint8(r.ents[i].flag.Flags))
		pw[i-1] = r.ents[i].policyWeight
	}
	rec["fwd"], rec["bwd"], rec["len"], rec["cnt"], rec["flags"], rec["pw"] = fw, bw, ln, cn, fl, pw
	return rec
}

func (r *vListRun) in(l int, e int) bool {
	return r.lists[l].Contains(r.ents[e])
}

func (r *vListRun) inLinkSet(l int, e int) bool {
	for i, tp := range vListTypes {
		if (tp == WHEEL_LIST) == (vListTypes[l-1] == WHEEL_LIST) && r.lists[i+1].Contains(r.ents[e]) {
			return true
		}
	}
	return false
}

// do performs one operation if its precondition (the callers' contract in tlfu.go / timerwheel.go)
// holds on the real structure; returns whether it was performed.
func (r *vListRun) do(a map[string]any) (done bool) {
	op := vStr(a["op"])
	l, e, m := int(vInt(a["l"])), int(vInt(a["e"])), int(vInt(a["m"]))
	rec := vRec{"op": op, "l": l, "e": e, "m": m}
	defer func() {
		if x := recover(); x != nil {
			r.tr.Emit(vRec{"op": "panic", "what": op, "msg": fmt.Sprint(x)})
			done = true
		}
	}()
	switch op {
	case "pushfront", "pushback":
		if r.inLinkSet(l, e) {
			return false
		}
		if op == "pushfront" {
			r.lists[l].PushFront(r.ents[e])
		} else {
			r.lists[l].PushBack(r.ents[e])
		}
	case "remove", "tofront", "toback":
		if !r.in(l, e) {
			return false
		}
		switch op {
		case "remove":
			r.lists[l].Remove(r.ents[e])
		case "tofront":
			r.lists[l].MoveToFront(r.ents[e])
		default:
			r.lists[l].MoveToBack(r.ents[e])
		}
	case "before", "after":
		if !r.in(l, e) || !r.in(l, m) {
			return false
		}
		if op == "before" {
			r.lists[l].MoveBefore(r.ents[e], r.ents[m])
		} else {
			r.lists[l].MoveAfter(r.ents[e], r.ents[m])
		}
	case "poptail":
		got := r.lists[l].PopTail()
		rec["ret"] = 0
		if got != nil {
			rec["ret"] = r.idOf(got)
		}
	case "cost":
		// tlfu.go UpdateCost / slru.go updateCost: weight and recorded size move together
		if vListTypes[l-1] == WHEEL_LIST || !r.in(l, e) {
			return false
		}
		w := vInt(a["w"])
		rec["w"] = w
		d := w - r.ents[e].policyWeight
		r.ents[e].policyWeight = w
		if vListTypes[l-1] == LIST_WINDOW {
			r.lists[l].len += d
		} else {
			s := &Slru[int, int]{probation: r.lists[2], protected: r.lists[3]}
			s.updateCost(r.ents[e], d)
		}
	case "flag":
		f, b := vStr(a["f"]), a["b"] == true
		rec["f"], rec["b"] = f, b
		switch f {
		case "removed":
			r.ents[e].flag.SetRemoved(b)
		case "nvm":
			r.ents[e].flag.SetFromNVM(b)
		case "deleted":
			r.ents[e].flag.SetDeleted(b)
		}
	default:
		return false
	}
	r.tr.Emit(r.state(rec))
	return true
}

// TestVerif_ListReplay executes TLC-generated behaviours of ListSim on real lists.
func TestVerif_ListReplay(t *testing.T) {
	out := vOutDir(t)
	files := vFiles(vEnv("VERIF_IN", ""), "sim_*.ndjson")
	tr := vNewTrace(filepath.Join(out, "list_replay.ndjson"))
	defer tr.Close()
	r := &vListRun{tr: tr}
	steps, skipped := 0, 0
	for i, f := range files {
		for _, a := range vReadNDJSON(f) {
			if vStr(a["op"]) == "init" {
				pw := make([]int64, vListN)
				for j, x := range a["pw"].([]any) {
					pw[j] = vInt(x)
				}
				r.start(i+1, filepath.Base(f), pw)
				continue
			}
			if r.do(a) {
				steps++
			} else {
				skipped++ // the specification enabled a call whose precondition the real structure denies
			}
		}
	}
	vSummary(out, "list_replay.summary.json", map[string]any{"behaviours": len(files), "steps": steps, "skipped": skipped})
}

// TestVerif_ListDriver: seeded random histories (longer than the TLC walks), including the sequences the
// policy performs: probation -> protected promotion, demotion by PopTail + PushFront, wheel cascade.
func TestVerif_ListDriver(t *testing.T) {
	out := vOutDir(t)
	n := vEnvInt("VERIF_N", 40)
	rng := vRand(707)
	tr := vNewTrace(filepath.Join(out, "list_driver.ndjson"))
	defer tr.Close()
	r := &vListRun{tr: tr}
	ops := []string{"pushfront", "pushback", "remove", "tofront", "toback", "before", "after", "poptail", "cost", "flag"}
	steps := 0
	for run := 0; run < n; run++ {
		pw := make([]int64, vListN)
		for i := range pw {
			pw[i] = []int64{1, 2, 5}[rng.Intn(3)]
		}
		r.start(run+1, fmt.Sprintf("driver-%d", run), pw)
		for s := 0; s < 400; s++ {
			a := map[string]any{"op": ops[rng.Intn(len(ops))], "l": 1 + rng.Intn(len(vListTypes)), "e": 1 + rng.Intn(vListN),
				"m": 1 + rng.Intn(vListN), "w": []int64{1, 2, 5}[rng.Intn(3)],
				"f": []string{"removed", "nvm", "deleted"}[rng.Intn(3)], "b": rng.Intn(2) == 0}
			if a["op"] == "flag" && a["e"].(int) > 3 {
				continue
			}
			if s%3 == 0 { // bias towards insertion so that the lists are populated
				a["op"] = []string{"pushfront", "pushback"}[rng.Intn(2)]
			}
			if r.do(a) {
				steps++
			}
		}
	}
	vSummary(out, "list_driver.summary.json", map[string]any{"runs": n, "steps": steps})
}
