package internal

// C16 under concurrency: the striped counter behind Stats() and the hit/miss accounting of
// concurrent Gets. Callers keep their own tallies; after each burst (all goroutines joined) the
// counter must hold exactly the number of completed additions (Counter.tla NoLostUpdate), and
// Stats() must have grown by the callers' hits and misses. Hooks are inert during the bursts.

import (
	"fmt"
	"path/filepath"
	"sync"
	"sync/atomic"
	"testing"
)

func TestVerif_CounterBurst(t *testing.T) {
	out := vOutDir(t)
	vStoreMu.Lock()
	defer vStoreMu.Unlock()
	SetVerifHandler(nil)
	tr := vNewTrace(filepath.Join(out, "counter.ndjson"))
	defer tr.Close()
	n := vEnvInt("VERIF_N", 6)
	rnd := vRand(int64(vEnvInt("VERIF_SEED", 1)))
	for i := 0; i < n; i++ {
		id := fmt.Sprintf("burst%d", i)
		// (a) the counter alone
		procs, adds := 8+rnd.Intn(56), 20000+rnd.Intn(60000)
		c := NewUnsignedCounter()
		var wg sync.WaitGroup
		for g := 0; g < procs; g++ {
			wg.Add(1)
			go func() {
				defer wg.Done()
				for j := 0; j < adds; j++ {
					c.Inc()
				}
			}()
		}
		wg.Wait()
		tr.Emit(vRec{"ev": "counter", "id": id, "procs": procs, "adds": adds, "value": int64(c.Value())})
		// (b) Gets on a cache: hits and misses as the callers saw them against Stats()
		st := NewStore[int, int](&StoreOptions[int, int]{MaxSize: 64})
		for k := 0; k < 32; k++ {
			st.Set(k, k, 1, 0)
		}
		st.Wait()
		s0 := st.Stats()
		var hits, misses atomic.Int64
		gets := 5000 + rnd.Intn(20000)
		for g := 0; g < procs; g++ {
			wg.Add(1)
			go func(g int) {
				defer wg.Done()
				h, m := int64(0), int64(0)
				for j := 0; j < gets; j++ {
					if _, ok := st.Get((j*7 + g) % 64); ok {
						h++
					} else {
						m++
					}
				}
				hits.Add(h)
				misses.Add(m)
			}(g)
		}
		wg.Wait()
		s1 := st.Stats()
		tr.Emit(vRec{"ev": "getburst", "id": id, "procs": procs, "gets": gets, "hits": hits.Load(), "misses": misses.Load(),
			"dhits": int64(s1.Hits() - s0.Hits()), "dmisses": int64(s1.Misses() - s0.Misses())})
		st.Close()
	}
	vSummary(out, "counter.json", map[string]any{"bursts": n, "events": tr.n})
}
