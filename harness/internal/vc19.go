package internal

// C19 harness.
// (1) Lock probes: while the free-running driver runs, every linearization hook is accompanied by a
//     probe of the locks the lock-domain table (LockTable.tla) assigns to the state touched there:
//     shard lock held for reading / writing, policy lock held. TLC validates the probes.
// (2) TestVerif_C19Race: a mixed workload over every API (incl. SaveCache, Range, Close, loader,
//     removal listener, hybrid store) with the hooks inert, meant to be run under the race detector.

import (
	"context"
	"fmt"
	"path/filepath"
	"sync"
	"sync/atomic"
	"testing"
	"time"
)

func vShardOf(s *Store[int, int], key int) *Shard[int, int] {
	_, idx := s.index(key)
	return s.shards[idx]
}

// read lock (fast-path slot or rw) or write lock held by somebody
func vProbeRead(sh *Shard[int, int]) int {
	mu := sh.mu
	for i := range mu.rslots {
		if atomic.LoadInt32(&mu.rslots[i].mu) > 0 {
			return 1
		}
	}
	if mu.rw.TryLock() {
		mu.rw.Unlock()
		return 0
	}
	return 1
}

// write lock held by somebody
func vProbeWrite(sh *Shard[int, int]) int {
	mu := sh.mu
	if mu.rw.TryRLock() {
		mu.rw.RUnlock()
		return 0
	}
	return 1
}

func vProbePolicy(s *Store[int, int]) int {
	if s.policyMu.TryLock() {
		s.policyMu.Unlock()
		return 0
	}
	return 1
}

// vLockHandler wraps the store handler of h and logs lock probes at the hook points.
func vLockHandler(h *vH) VerifHandler {
	return func(point int, a, b, c any, n []int64) {
		s := h.store
		if s != nil && !h.quiet.Load() {
			if _, ok := h.procOf(point, a); ok {
				switch point {
				case VpGetMap:
					h.tr.Emit(vRec{"ev": "probe", "at": "get", "need": "shard_read", "held": vProbeRead(vShardOf(s, vKey(a)))})
				case VpSetMapUpdate, VpSetMapNew, VpSetMapReject:
					h.tr.Emit(vRec{"ev": "probe", "at": "set", "need": "shard_write", "held": vProbeWrite(vShardOf(s, vKey(a)))})
				case VpDelMap:
					h.tr.Emit(vRec{"ev": "probe", "at": "delete", "need": "shard_write", "held": vProbeWrite(vShardOf(s, vKey(a)))})
				case VpMapRemoved:
					if e := vEntry(b); e != nil {
						h.tr.Emit(vRec{"ev": "probe", "at": "mapremoved", "need": "shard_write", "held": vProbeWrite(vShardOf(s, e.key))})
					}
					h.tr.Emit(vRec{"ev": "probe", "at": "mapremoved", "need": "policy", "held": vProbePolicy(s)})
				case VpSinkIn, VpRemoveIn, VpAccess, VpTickLocked, VpMaintLocked, VpRemovedArm:
					h.tr.Emit(vRec{"ev": "probe", "at": fmt.Sprintf("policy_section_%d", point), "need": "policy", "held": vProbePolicy(s)})
				}
			}
		}
		h.handle(point, a, b, c, n)
	}
}

func TestVerif_C19Locks(t *testing.T) {
	out := vOutDir(t)
	vStoreMu.Lock()
	defer vStoreMu.Unlock()
	tr := vNewTrace(filepath.Join(out, "locks.ndjson"))
	defer tr.Close()
	n := vEnvInt("VERIF_N", 6)
	for i := 0; i < n; i++ {
		rnd := vRand(int64(i) + 900)
		o := vStoreOpts{MaxSize: int64(3 + rnd.Intn(8)), Loading: i%2 == 1, Shift: 20, StartNs: int64(1+rnd.Intn(5000)) << 20}
		tr.Emit(vRec{"ev": "reset", "id": fmt.Sprintf("locks%d", i)})
		h := vNewH(tr, o)
		h.logAccess = true
		SetVerifHandler(vLockHandler(h))
		var wg sync.WaitGroup
		for ci := 0; ci < 4; ci++ {
			wg.Add(1)
			go func(ci int) {
				defer wg.Done()
				c := h.client(fmt.Sprintf("c%d", ci+1))
				un := c.register()
				defer un()
				r := vRand(int64(i*10 + ci))
				for j := 0; j < 250; j++ {
					k := 1 + r.Intn(10)
					switch x := r.Intn(10); {
					case x < 4:
						c.Set(k, 1, []int64{0, 500, 3000}[r.Intn(3)])
					case x < 8:
						if o.Loading && r.Intn(2) == 0 {
							c.LGet(k)
						} else {
							c.Get(k)
						}
					default:
						c.Delete(k)
					}
				}
			}(ci)
		}
		wg.Wait()
		h.advance(4000)
		h.tickNow()
		c0 := h.client("c0")
		un := c0.register()
		c0.timed(3*time.Second, c0.Wait)
		un()
		h.shutdown(false)
	}
	vSummary(out, "locks.json", map[string]any{"runs": n, "events": tr.n})
}

// TestVerif_C19Race: hooks inert, default configuration (entry pool off), every API concurrently.
func TestVerif_C19Race(t *testing.T) {
	if vEnv("VERIF_OUT", "") == "" {
		t.Skip("harness test")
	}
	// the only hook in use: a plain sleep (no synchronisation) where a loading Get sits between its map
	// lookup and the single-flight section, and where a reader is about to publish into the read buffer,
	// so that unlocked accesses next to lock boundaries overlap other goroutines' writes
	var hd VerifHandler = func(point int, a, b, c any, n []int64) {
		if point == VpSfLock || point == VpSfLeader {
			time.Sleep(150 * time.Microsecond)
		}
	}
	SetVerifHandler(hd)
	defer SetVerifHandler(nil)
	rounds := vEnvInt("VERIF_N", 6)
	for round := 0; round < rounds; round++ {
		var notified atomic.Int64
		opts := &StoreOptions[int, int]{MaxSize: int64(8 + round*4), Listener: func(k, v int, r RemoveReason) { notified.Add(1) }}
		var sec *SimpleMapSecondary[int, int]
		if round%3 == 2 {
			sec = NewSimpleMapSecondary[int, int]()
			opts.SecondaryCache = sec
			opts.Workers = 2
			opts.Probability = 1
		}
		s := NewStore[int, int](opts)
		ls := NewLoadingStore[int, int](s)
		ls.Loader(func(ctx context.Context, key int) (Loaded[int], error) {
			if key >= 1000 {
				time.Sleep(100 * time.Microsecond) // the load bursts: callers arriving meanwhile join this load
			}
			return Loaded[int]{Value: key * 7, Cost: 1, TTL: time.Duration(key%3) * 50 * time.Millisecond}, nil
		})
		var wg sync.WaitGroup
		stop := make(chan struct{})
		for g := 0; g < 8; g++ {
			wg.Add(1)
			go func(g int) {
				defer wg.Done()
				r := vRand(int64(round*100 + g))
				for i := 0; ; i++ {
					select {
					case <-stop:
						return
					default:
					}
					k := r.Intn(40)
					switch x := r.Intn(100); {
					case x < 25:
						s.Set(k, i, int64(1+r.Intn(2)), time.Duration(r.Intn(3))*20*time.Millisecond)
					case x < 50:
						s.Get(k)
					case x < 60:
						ls.Get(context.Background(), k)
					case x < 70:
						if sec != nil {
							s.DeleteWithSecondary(k)
						} else {
							s.Delete(k)
						}
					case x < 75:
						s.Range(func(k, v int) bool { return true })
					case x < 80:
						s.Len()
						s.EstimatedSize()
						s.Stats()
					case x < 84:
						s.Wait()
					case x < 88:
						s.Persist(1, &vSlowWriter{})
					case x < 92:
						if sec != nil {
							s.GetWithSecodary(k)
						}
					default:
						s.Get(k)
					}
				}
			}(g)
		}
		time.Sleep(time.Duration(120+round*30) * time.Millisecond)
		if round%2 == 0 {
			// a read-heavy burst: every stripe of the read buffer is filled and drained many times, by different goroutines
			var wg2 sync.WaitGroup
			for g := 0; g < 8; g++ {
				wg2.Add(1)
				go func(g int) {
					defer wg2.Done()
					for i := 0; i < 6000; i++ {
						s.Get((i + g) % 40)
					}
				}(g)
			}
			wg2.Wait()
			// load bursts: callers keep missing on three keys, one loads (slowly) while the others wait for it; call
			// records go back to the pool and are taken again while late callers are still returning
			for g := 0; g < 8; g++ {
				wg2.Add(1)
				go func(g int) {
					defer wg2.Done()
					r := vRand(int64(round*1000 + g))
					for i := 0; i < 150; i++ {
						key := 1000 + r.Intn(3)
						if r.Intn(3) == 0 {
							s.Delete(key)
						}
						ls.Get(context.Background(), key)
					}
				}(g)
			}
			wg2.Wait()
		}
		if round%2 == 1 {
			s.Close() // Close racing everything else
			time.Sleep(20 * time.Millisecond)
		}
		close(stop)
		wg.Wait()
		s.Close()
	}
}

// vSlowWriter discards what is written, slowly: SaveCache stays inside its critical section for a while.
type vSlowWriter struct{ n int }

func (w *vSlowWriter) Write(p []byte) (int, error) {
	w.n += len(p)
	time.Sleep(100 * time.Microsecond)
	return len(p), nil
}
