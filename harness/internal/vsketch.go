package internal

// C17 harness: drives the real CountMinSketch and logs, per step, the four <<word, nibble>>
// positions the code's own index function yields for the hash, the counters it holds there
// afterwards, its estimate and bookkeeping. SketchTrace.tla evolves its own table and judges.

import (
	"fmt"
	"path/filepath"
	"testing"
)

func vSketchPos(s *CountMinSketch, h uint64) [][]uint {
	block := (h & uint64(s.BlockMask)) << 3
	hc := rehash(h)
	out := make([][]uint, 4)
	for i := uint8(0); i < 4; i++ {
		idx, off := s.indexOf(hc, block, i)
		out[i] = []uint{idx, off}
	}
	return out
}

func vSketchVals(s *CountMinSketch, pos [][]uint) []uint {
	out := make([]uint, 4)
	for i, p := range pos {
		if int(p[0]) >= len(s.Table) {
			out[i] = 99
			continue
		}
		out[i] = uint((s.Table[p[0]] >> (p[1] << 2)) & 0xF)
	}
	return out
}

type vSketchRun struct {
	s  *CountMinSketch
	tr *vTrace
}

func (r *vSketchRun) guard(what string, f func()) {
	defer func() {
		if x := recover(); x != nil {
			r.tr.Emit(vRec{"op": "panic", "what": what, "msg": fmt.Sprint(x)})
		}
	}()
	f()
}

func (r *vSketchRun) add(h uint64) {
	r.guard("add", func() {
		pos := vSketchPos(r.s, h)
		did := r.s.Add(h)
		r.tr.Emit(vRec{"op": "add", "h": fmt.Sprintf("%x", h), "k": pos, "vals": vSketchVals(r.s, pos),
			"est": r.s.Estimate(h), "additions": r.s.Additions, "didreset": did, "len": len(r.s.Table)})
	})
}

func (r *vSketchRun) addn(h uint64, n int) {
	r.guard("addn", func() {
		pos := vSketchPos(r.s, h)
		r.s.Addn(h, n)
		r.tr.Emit(vRec{"op": "addn", "h": fmt.Sprintf("%x", h), "k": pos, "n": n, "vals": vSketchVals(r.s, pos),
			"est": r.s.Estimate(h), "additions": r.s.Additions, "len": len(r.s.Table)})
	})
}

func (r *vSketchRun) est(h uint64) {
	r.guard("est", func() {
		pos := vSketchPos(r.s, h)
		r.tr.Emit(vRec{"op": "est", "h": fmt.Sprintf("%x", h), "k": pos, "est": r.s.Estimate(h)})
	})
}

func (r *vSketchRun) ensure(size uint) {
	r.guard("ensure", func() {
		r.s.EnsureCapacity(size)
		r.tr.Emit(vRec{"op": "ensure", "size": size, "len": len(r.s.Table), "sample": r.s.SampleSize, "additions": r.s.Additions})
	})
}

// ensureHuge asks for a capacity that does not fit a signed integer (a damaged snapshot's entry count ends up
// here through Recover). Whatever the sketch makes of it, its table must not shrink. Logged with size 0, the
// request itself is outside TLC's integers.
func (r *vSketchRun) ensureHuge(size uint) {
	r.guard("ensure", func() {
		r.s.EnsureCapacity(size)
		r.tr.Emit(vRec{"op": "ensure", "size": 0, "len": len(r.s.Table), "sample": r.s.SampleSize, "additions": r.s.Additions})
	})
}

func (r *vSketchRun) nearSample(d uint) {
	if r.s.SampleSize > d && r.s.Additions < r.s.SampleSize-d {
		r.s.Additions = r.s.SampleSize - d
		r.tr.Emit(vRec{"op": "setadd", "additions": r.s.Additions})
	}
}

func (r *vSketchRun) start(id int, src string) {
	if id%2 == 1 {
		r.s = NewCountMinSketch()
	} else {
		r.s = &CountMinSketch{}
		r.s.EnsureCapacity(16)
	}
	r.tr.Emit(vRec{"op": "new", "id": id, "src": src, "len": len(r.s.Table), "sample": r.s.SampleSize, "additions": r.s.Additions})
}

// hash families: adversarial constants, many keys in one block, random
func vSketchHashes(kind int, n int, salt int64) []uint64 {
	rng := vRand(salt)
	out := make([]uint64, n)
	for i := range out {
		switch kind % 4 {
		case 0:
			out[i] = []uint64{0, ^uint64(0), 1, 1 << 63, 0x5555555555555555, 0xAAAAAAAAAAAAAAAA, 0xFFFFFFFF, 0xFFFFFFFF00000000}[i%8]
		case 1: // same block for every table size up to 2^24 words: equal low 21 bits
			out[i] = (rng.Uint64() &^ ((1 << 24) - 1)) | 0x3
		case 2:
			out[i] = rng.Uint64()
		default: // small integers (sequential keys hashed poorly)
			out[i] = uint64(i)
		}
	}
	return out
}

// TestVerif_C17SketchReplay executes TLC-generated operation sequences on the real sketch.
func TestVerif_C17SketchReplay(t *testing.T) {
	out := vOutDir(t)
	files := vFiles(vEnv("VERIF_IN", ""), "sim_*.ndjson")
	tr := vNewTrace(filepath.Join(out, "sketch_replay.ndjson"))
	defer tr.Close()
	r := &vSketchRun{tr: tr}
	steps := 0
	for i, f := range files {
		hs := vSketchHashes(i, 8, int64(i))
		r.start(i+1, filepath.Base(f))
		for _, a := range vReadNDJSON(f) {
			steps++
			switch vStr(a["op"]) {
			case "add":
				r.add(hs[vInt(a["key"])])
			case "addn":
				r.addn(hs[vInt(a["key"])], int(vInt(a["n"])))
			case "est":
				r.est(hs[vInt(a["key"])])
			case "ensure":
				r.ensure(uint(vInt(a["size"])))
			case "nearsample":
				r.nearSample(uint(vInt(a["d"])))
			}
		}
	}
	vSummary(out, "sketch_replay.summary.json", map[string]any{"behaviours": len(files), "steps": steps})
}

// TestVerif_C17SketchDriver: seeded runs over table sizes 16..2^VERIF_MAXLOG with adversarial hashes,
// long enough on small tables for natural resets, and brought close to the sample period on large ones.
func TestVerif_C17SketchDriver(t *testing.T) {
	out := vOutDir(t)
	n := vEnvInt("VERIF_N", 40)
	maxlog := vEnvInt("VERIF_MAXLOG", 20)
	rng := vRand(17)
	tr := vNewTrace(filepath.Join(out, "sketch_driver.ndjson"))
	defer tr.Close()
	r := &vSketchRun{tr: tr}
	steps := 0
	for run := 0; run < n; run++ {
		r.start(run+1, fmt.Sprintf("driver-%d", run))
		lg := 4 + run%(maxlog-3)
		size := uint(1) << uint(lg)
		if run%5 == 1 {
			size = size - uint(rng.Intn(int(size/2))) // not a power of two
		}
		r.ensure(size)
		hs := vSketchHashes(run, 3+rng.Intn(8), int64(1000+run))
		nsteps := 220
		for s := 0; s < nsteps; s++ {
			steps++
			h := hs[rng.Intn(len(hs))]
			switch x := rng.Intn(100); {
			case x < 70:
				r.add(h)
			case x < 78:
				r.addn(h, 1+rng.Intn(17))
			case x < 90:
				r.est(h)
			case x < 94:
				r.nearSample(uint(1 + rng.Intn(4)))
			case x < 96:
				r.ensure(uint(rng.Intn(int(size) + 2)))
			case x < 97:
				r.ensureHuge(uint(1)<<63 + uint(rng.Intn(1<<30))<<uint(rng.Intn(33)))
			default:
				if lg < maxlog {
					lg++
					size = uint(1) << uint(lg)
					r.ensure(size - uint(rng.Intn(3)))
				}
			}
		}
		// after the run every key is queried once more
		for _, h := range hs {
			r.est(h)
		}
	}
	vSummary(out, "sketch_driver.summary.json", map[string]any{"runs": n, "steps": steps})
}
