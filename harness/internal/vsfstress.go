package internal

// C13, hook-free: goroutines hammer Group.Do on a few keys of one group with the hook handler removed (hook
// points are inert), so that the windows between the atomic steps of Do are hit by the Go scheduler itself -
// also windows in which no hook sits. Every call keeps two stamps of one atomic counter (before the call, after
// the return); every invocation of the function is stamped when it starts and when it ends and returns
// key * 2^20 + invocation number. What a caller got is judged by SfStress.tla: the value belongs to the caller's
// key and comes from an invocation that overlaps the call.

import (
	"path/filepath"
	"runtime"
	"sync"
	"sync/atomic"
	"testing"
)

type vSfInv struct{ key, start, end, lret int64 } // lret: stamp after the leader's Do returned

type vSfCall struct {
	key, c0, c1, val int64
	err              bool
}

func vSfStressRun(tr *vTrace, id int, nkeys int, workers int, perWorker int, yield int) (calls int) {
	g := NewGroup[int, int64]()
	var stamp atomic.Int64
	var nextInv atomic.Int64
	var imu sync.Mutex
	invs := map[int64]*vSfInv{}
	all := make([][]vSfCall, workers)
	var wg sync.WaitGroup
	for w := 0; w < workers; w++ {
		wg.Add(1)
		go func(w int) {
			defer wg.Done()
			rnd := vRand(int64(id*1000 + w))
			out := make([]vSfCall, 0, perWorker)
			for i := 0; i < perWorker; i++ {
				k := int64(1 + rnd.Intn(nkeys))
				c0 := stamp.Add(1)
				var mine *vSfInv
				v, err, _ := g.Do(int(k), func() (int64, error) {
					n := nextInv.Add(1)
					iv := &vSfInv{key: k, start: stamp.Add(1)}
					mine = iv
					imu.Lock()
					invs[n] = iv
					imu.Unlock()
					for y := 0; y < yield; y++ {
						runtime.Gosched()
					}
					iv.end = stamp.Add(1)
					return k<<20 | n, nil
				})
				c1 := stamp.Add(1)
				if mine != nil {
					mine.lret = c1 // the call stays in the group's table until shortly before its leader returns
				}
				out = append(out, vSfCall{key: k, c0: c0, c1: c1, val: v, err: err != nil})
			}
			all[w] = out
		}(w)
	}
	wg.Wait()
	tr.Emit(vRec{"op": "new", "id": id, "keys": nkeys, "workers": workers})
	sampled := 0
	for w := range all {
		for i, c := range all[w] {
			calls++
			vk, n := c.val>>20, c.val&(1<<20-1)
			iv := invs[n]
			ok := !c.err && iv != nil && vk == c.key && iv.key == c.key && iv.start <= c.c1 && iv.lret >= c.c0
			// volume: every call the harness finds suspicious is logged, of the others one in 64
			if ok && (i+w)%64 != 0 {
				continue
			}
			sampled++
			rec := vRec{"op": "call", "w": w, "k": c.key, "vk": vk, "inv": n, "c0": c.c0, "c1": c.c1, "err": vb(c.err), "known": vb(iv != nil)}
			if iv != nil {
				rec["ik"], rec["i0"], rec["i1"], rec["l1"] = iv.key, iv.start, iv.end, iv.lret
			} else {
				rec["ik"], rec["i0"], rec["i1"], rec["l1"] = 0, 0, 0, 0
			}
			tr.Emit(rec)
		}
	}
	tr.Emit(vRec{"op": "end", "calls": calls, "logged": sampled, "invocations": len(invs)})
	return calls
}

func TestVerif_C13SfStress(t *testing.T) {
	out := vOutDir(t)
	vStoreMu.Lock()
	defer vStoreMu.Unlock()
	SetVerifHandler(nil)
	tr := vNewTrace(filepath.Join(out, "sfstress.ndjson"))
	defer tr.Close()
	n := vEnvInt("VERIF_N", 6)
	total := 0
	for i := 0; i < n; i++ {
		// few keys and many workers: records are recycled between keys all the time
		total += vSfStressRun(tr, i+1, 2+i%3, 8+4*(i%3), 60000, i%3)
	}
	vSummary(out, "sfstress.summary.json", map[string]any{"runs": n, "calls": total})
}
