package internal

// C11 / C12 harness: real caches are filled (mixed costs, TTLs on several wheel levels, reads that
// promote, adaptive window resizing), saved with Persist, the stream is decoded into its blocks,
// optionally damaged at block level (truncate, drop, duplicate, swap, retype header, corrupt
// payload, wrong version) or at byte level, and loaded with Recover into a new cache of a chosen
// size after a chosen elapsed time. Saved state, block list, fault and loaded state are logged;
// TLC evaluates Load of Persist.tla on the same blocks and compares (PersistTrace).

import (
	"bytes"
	"encoding/gob"
	"errors"
	"fmt"
	"io"
	"path/filepath"
	"sort"
	"testing"
	"time"

	"github.com/zeebo/xxh3"
)

const vPU = 20 // time unit of the persist traces: 2^20 ns

type vPEntry struct {
	k, v   int
	cost   int64
	dl     int64 // units
	fr     int
	region int
}

func vPList(s *Store[int, int], l *List[int, int]) [][]int64 {
	out := [][]int64{}
	n := 0
	for e := l.Front(); e != nil && n < 100000; e = e.Next(l.listType) {
		dl := e.expire.Load() >> vPU
		if e.expire.Load() != 0 && dl == 0 {
			dl = 1
		}
		out = append(out, []int64{int64(e.key), int64(e.value), e.weight.Load(), dl, int64(s.policy.sketch.Estimate(s.hasher.Hash(e.key))), e.policyWeight})
		n++
	}
	return out
}

func vPSnap(s *Store[int, int]) vRec {
	s.policyMu.Lock()
	defer s.policyMu.Unlock()
	resident := 0
	s.RangeEntry(func(e *Entry[int, int]) { resident++ })
	return vRec{"win": vPList(s, s.policy.window), "pt": vPList(s, s.policy.slru.protected), "pb": vPList(s, s.policy.slru.probation),
		"capW": int64(s.policy.window.capacity), "capT": int64(s.policy.slru.protected.capacity), "main": int64(s.policy.slru.maxsize),
		"ws": int64(s.policy.weightedSize), "resident": resident,
		"lenW": s.policy.window.len, "lenT": s.policy.slru.protected.len, "lenB": s.policy.slru.probation.len}
}

type vBlock struct {
	otp  uint8 // type the block had in the original stream (tells the kind of its payload)
	b    DataBlock[any]
	ents [][]int64
	ver  int64
	st   int64
}

func vPDecode(stream []byte) ([]vBlock, error) {
	dec := gob.NewDecoder(bytes.NewReader(stream))
	var out []vBlock
	for {
		blk := DataBlock[any]{}
		err := dec.Decode(&blk)
		if errors.Is(err, io.EOF) {
			return out, nil
		}
		if err != nil {
			return out, err
		}
		vb := vBlock{b: blk, otp: blk.Type}
		switch blk.Type {
		case 1:
			m := &StoreMeta{}
			if e := gob.NewDecoder(bytes.NewReader(blk.Data)).Decode(m); e == nil {
				vb.ver = int64(m.Version)
				vb.st = m.StartNano
			}
		case 2, 3, 4:
			d := gob.NewDecoder(bytes.NewReader(blk.Data))
			for {
				p := &Pentry[int, int]{}
				if e := d.Decode(p); e != nil {
					break
				}
				dl := p.Expire >> vPU
				if p.Expire != 0 && dl == 0 {
					dl = 1
				}
				vb.ents = append(vb.ents, []int64{int64(p.Key), int64(p.Value), p.Weight, dl, int64(p.Frequency), p.PolicyWeight})
			}
		}
		out = append(out, vb)
		if blk.Type == 255 {
			// keep decoding: damaged streams may carry blocks after an end block
			continue
		}
	}
}

func vPEncode(blocks []vBlock) []byte {
	var buf bytes.Buffer
	enc := gob.NewEncoder(&buf)
	for i := range blocks {
		b := blocks[i].b
		_ = enc.Encode(&b)
	}
	return buf.Bytes()
}

func vPBlocksRec(blocks []vBlock, origin int64) []any {
	out := []any{}
	for _, b := range blocks {
		ents := b.ents
		if ents == nil {
			ents = [][]int64{}
		}
		st := int64(0)
		if b.b.Type == 1 {
			st = 1000
			if b.st != origin {
				st = 1000 + (b.st-origin)>>vPU
			}
		}
		out = append(out, vRec{"tp": int(b.b.Type), "otp": int(b.otp), "sumok": vb(b.b.CheckSum == xxh3.Hash(b.b.Data)), "ents": ents, "ver": b.ver, "start": st})
	}
	return out
}

// vPFill drives a cache into a non-trivial state.
func vPFill(size int, salt int64) *Store[int, int] {
	rnd := vRand(salt*31 + 7) // (not the caller's sequence)
	s := NewStore[int, int](&StoreOptions[int, int]{MaxSize: int64(size)})
	ttls := []time.Duration{0, 0, 400 * time.Millisecond, 3 * time.Second, 90 * time.Second, 2 * time.Hour, 50 * time.Hour}
	n := size + rnd.Intn(2*size+1)
	if rnd.Intn(6) == 0 {
		n = rnd.Intn(3)
	}
	for i := 0; i < n; i++ {
		k := 1 + rnd.Intn(2*size)
		cost := int64(1)
		if rnd.Intn(3) == 0 {
			cost = int64(1 + rnd.Intn(3))
		}
		s.Set(k, 1000+k, cost, ttls[rnd.Intn(len(ttls))])
		if rnd.Intn(2) == 0 {
			s.Wait()
			s.policyMu.Lock()
			if e, ok := s.shards[int(s.hasher.Hash(k)&uint64(s.shardCount-1))].get(k); ok && e.meta.prev != nil {
				s.policy.Access(ReadBufItem[int, int]{entry: e, hash: s.hasher.Hash(k)})
				if rnd.Intn(2) == 0 {
					s.policy.Access(ReadBufItem[int, int]{entry: e, hash: s.hasher.Hash(k)})
				}
			}
			s.policyMu.Unlock()
		}
	}
	s.Wait()
	if size >= 150 {
		// a cache that has shrunk: most keys are deleted again, the survivors are hot. The sketch of the loading
		// cache is sized from the number of saved entries, i.e. smaller than the one the frequencies were counted in
		keep := 45 + rnd.Intn(18)
		live := []int{}
		s.RangeEntry(func(e *Entry[int, int]) { live = append(live, e.key) })
		for i, k := range live {
			if i >= keep {
				s.Delete(k)
			}
		}
		s.Wait()
		s.policyMu.Lock()
		s.RangeEntry(func(e *Entry[int, int]) { s.policy.sketch.Addn(s.hasher.Hash(e.key), 15) })
		s.policyMu.Unlock()
		return s
	}
	if rnd.Intn(2) == 0 {
		// a warm cache: high access frequencies (counters shared between keys get close to saturation)
		s.policyMu.Lock()
		s.RangeEntry(func(e *Entry[int, int]) { s.policy.sketch.Addn(s.hasher.Hash(e.key), 6+rnd.Intn(8)) })
		s.policyMu.Unlock()
	}
	if rnd.Intn(3) == 0 {
		// adaptive window: let the climber move capacity between window and protected
		s.policyMu.Lock()
		s.policy.hitsInSample, s.policy.missesInSample = uint64(rnd.Intn(100)), uint64(rnd.Intn(100))
		s.policy.hr = rnd.Float32()
		s.policy.step = (rnd.Float32()*2 - 1) * float32(size) * 0.5
		s.policy.climb()
		s.policy.resizeWindow()
		s.policyMu.Unlock()
	}
	return s
}

func vPErrKind(err error) string {
	switch {
	case err == nil:
		return "none"
	case errors.Is(err, VersionMismatch):
		return "version"
	default:
		return "error"
	}
}

// vPLoad loads stream into a fresh cache of the given size after shifting time by elapsed.
func vPLoad(stream []byte, version uint64, size int) (rec vRec, kind string, s2 *Store[int, int]) {
	s2 = NewStore[int, int](&StoreOptions[int, int]{MaxSize: int64(size)})
	kind = "panic"
	func() {
		defer func() {
			if r := recover(); r != nil {
				kind = "panic"
			}
		}()
		err := s2.Recover(version, bytes.NewReader(stream))
		kind = vPErrKind(err)
	}()
	rec = vPSnap(s2)
	return
}

func vPersistRun(tr *vTrace, id string, salt int64, bytesN int) {
	rnd := vRand(salt)
	size := 3 + rnd.Intn(12)
	if rnd.Intn(6) == 0 {
		// large enough for the sketch table to be re-allocated while the cache fills (entries saved with frequency 0)
		size = 66 + rnd.Intn(70)
	}
	if salt%8 == 5 {
		size = 150 + rnd.Intn(100) // shrinks again before it is saved (vPFill)
	}
	s := vPFill(size, salt)
	defer s.Close()
	// elapsed time between save and load: move the clock origin of the saved cache back
	// (75 s and 5000 s put the load inside the coarse wheel tick that holds the 90 s / 2 h deadlines)
	elapsed := []time.Duration{0, time.Second, 10 * time.Second, 10 * time.Second, 75 * time.Second, 75 * time.Second, 5 * time.Minute, 5000 * time.Second, 3 * time.Hour}[rnd.Intn(9)]
	for tries := 0; tries < 20; tries++ {
		now := s.timerwheel.clock.NowNano() + elapsed.Nanoseconds()
		clash := false
		s.RangeEntry(func(e *Entry[int, int]) {
			d := e.expire.Load()
			if d != 0 && d-now < 100*(1<<vPU) && now-d < 100*(1<<vPU) {
				clash = true
			}
		})
		if !clash {
			break
		}
		elapsed += 250 * time.Millisecond
	}
	s.timerwheel.clock.Start = s.timerwheel.clock.Start.Add(-elapsed)
	saved := vPSnap(s)
	var buf bytes.Buffer
	version := uint64(7)
	if rnd.Intn(3) == 0 {
		version = 0 // the zero version is an ordinary version number
	}
	// every other run: small data blocks, so that the regions of the saved cache span several blocks
	// (BlockBufferSize is a variable in the verif build; 4 MB otherwise)
	oldBlock := BlockBufferSize
	if rnd.Intn(2) == 0 {
		BlockBufferSize = 30 + rnd.Intn(170)
	}
	defer func() { BlockBufferSize = oldBlock }()
	if err := s.Persist(version, &buf); err != nil {
		tr.Emit(vRec{"ev": "saveerr", "id": id})
		return
	}
	stream := buf.Bytes()
	origin := s.timerwheel.clock.Start.UnixNano()
	blocks, derr := vPDecode(stream)
	if derr != nil {
		tr.Emit(vRec{"ev": "saveerr", "id": id})
		return
	}
	tr.Emit(vRec{"ev": "saved", "id": id, "size": size, "state": saved, "blocks": vPBlocksRec(blocks, origin), "bytes": len(stream), "ver": int64(version)})
	emitLoad := func(fault string, fb []vBlock, stream []byte, ver uint64, tsize int) {
		rec, kind, s2 := vPLoad(stream, ver, tsize)
		// "now" of the loading cache and of the saved cache's time line at the moment of the load
		ownAtLoad, savedAtLoad := s2.timerwheel.clock.NowNano(), s.timerwheel.clock.NowNano()
		wall := int64(1000) + s2.timerwheel.clock.NowNano()>>vPU
		originOK := s2.timerwheel.clock.Start.UnixNano() == origin
		rec["ev"] = "load"
		rec["fault"] = fault
		rec["blocks"] = vPBlocksRec(fb, origin)
		rec["ver"] = int64(ver)
		rec["tsize"] = tsize
		rec["wall"] = wall
		rec["err"] = kind
		rec["origin_ok"] = vb(originOK)
		// what the loaded cache serves right away (before its first tick): key/value pairs of the hits
		served := [][]int{}
		if fault == "none" && kind == "none" {
			for k := 0; k <= 600; k++ {
				if v, ok := s2.Get(k); ok {
					served = append(served, []int{k, v})
				}
			}
		}
		rec["served"] = served
		tr.Emit(rec)
		// C04 for restored entries: let the clock pass the earliest restored deadline and tick twice as the
		// ticker does (1.1 s and 2.2 s after it): everything due 2.1 s before the second tick must be gone
		if fault == "none" && kind == "none" {
			var dmin int64
			s2.RangeEntry(func(e *Entry[int, int]) {
				if d := e.expire.Load(); d != 0 && (dmin == 0 || d < dmin) {
					dmin = d
				}
			})
			if dmin != 0 {
				clk := s2.timerwheel.clock
				tick := func(at int64) {
					s2.policyMu.Lock()
					clk.Start = clk.Start.Add(-time.Duration(at - clk.NowNano()))
					clk.RefreshNowCache()
					s2.timerwheel.advance(0, s2.removeEntry)
					s2.policyMu.Unlock()
				}
				base := dmin
				if n := clk.NowNano(); n > base {
					base = n
				}
				tick(base + 1100*int64(time.Millisecond))
				tick(base + 2200*int64(time.Millisecond))
				due, overdue := 0, 0
				s2.RangeEntry(func(e *Entry[int, int]) {
					if d := e.expire.Load(); d != 0 && d <= base+100*int64(time.Millisecond) {
						overdue++
					}
				})
				due, _ = rec["resident"].(int)
				tr.Emit(vRec{"ev": "reclaim", "id": id, "tsize": tsize, "loaded": due, "overdue": overdue})
				// C03 for restored entries: move on to just after the latest saved deadline within three hours and
				// read every key: whatever is served must not be past the deadline it was saved with
				dls := []int64{}
				s.RangeEntry(func(e *Entry[int, int]) {
					if d := e.expire.Load(); d > savedAtLoad && d-savedAtLoad < int64(3*time.Hour) {
						dls = append(dls, d)
					}
				})
				sort.Slice(dls, func(i, j int) bool { return dls[i] < dls[j] })
				// one reading 1.5 s after every cluster of saved deadlines (measured as time elapsed since the load:
				// the loading cache's time line need not be the saved one)
				for i, d := range dls {
					if i+1 < len(dls) && dls[i+1]-d < 3*int64(time.Second) {
						continue
					}
					if at := ownAtLoad + (d - savedAtLoad) + 1500*int64(time.Millisecond); at > clk.NowNano() {
						tick(at)
					}
					later := [][]int{}
					for k := 0; k <= 600; k++ {
						if v, ok := s2.Get(k); ok {
							later = append(later, []int{k, v})
						}
					}
					tr.Emit(vRec{"ev": "later", "id": id, "wall": int64(1000) + (savedAtLoad+clk.NowNano()-ownAtLoad)>>vPU, "served": later})
				}
			}
		}
		s2.Close()
	}
	// C11: clean round trips into the same, a smaller and a larger cache
	for _, ts := range []int{size, size, 1 + rnd.Intn(size), size + 1 + rnd.Intn(10)} {
		emitLoad("none", blocks, stream, version, ts)
	}
	// any other version number must be refused - also the zero version, which is a version like any other
	for _, ov := range []uint64{version + 1, 0, 1} {
		if ov != version {
			emitLoad("version", blocks, stream, ov, size)
		}
	}
	// C12: block-level faults
	cp := func() []vBlock { return append([]vBlock{}, blocks...) }
	for n := 0; n < len(blocks); n++ {
		fb := cp()[:n]
		emitLoad("truncate", fb, vPEncode(fb), version, size)
		// ... and into a cache that is full long before the stream ends
		if small := 1 + size/4; n >= 2 {
			emitLoad("truncate", fb, vPEncode(fb), version, small)
		}
	}
	for i := range blocks {
		fb := append(cp()[:i], blocks[i+1:]...)
		emitLoad("drop", fb, vPEncode(fb), version, size)
		fb = append(append(cp()[:i+1], blocks[i]), blocks[i+1:]...)
		emitLoad("dup", fb, vPEncode(fb), version, size)
		fb = cp()
		fb[i].b.CheckSum ^= 0x10
		emitLoad("corrupt", fb, vPEncode(fb), version, size)
		if len(blocks[i].b.Data) > 4 {
			// payload damaged AND the checksum field zeroed (e.g. dropped by a damaged type descriptor)
			for try := 0; try < 6; try++ {
				fb = cp()
				d := append([]byte{}, blocks[i].b.Data...)
				d[rnd.Intn(len(d))] ^= byte(1 << uint(rnd.Intn(8)))
				fb[i].b.Data = d
				fb[i].b.CheckSum = 0
				emitLoad("corrupt", fb, vPEncode(fb), version, size)
			}
		}
		for _, t := range []uint8{1, 2, 3, 4, 255, 9} {
			if t == blocks[i].b.Type {
				continue
			}
			fb = cp()
			fb[i].b.Type = t
			wrongVer := uint64(version)
			if rnd.Intn(4) == 0 {
				wrongVer++
			}
			emitLoad("retype", fb, vPEncode(fb), wrongVer, size)
		}
		j := rnd.Intn(len(blocks))
		if j != i {
			fb = cp()
			fb[i], fb[j] = fb[j], fb[i]
			emitLoad("swap", fb, vPEncode(fb), version, size)
		}
	}
	// C12: byte-level damage: truncation offsets and single-bit / single-byte flips
	for b := 0; b < bytesN; b++ {
		var dmg []byte
		what := ""
		switch b % 3 {
		case 0:
			off := rnd.Intn(len(stream))
			dmg = append([]byte{}, stream[:off]...)
			what = "bytetrunc"
		case 1:
			dmg = append([]byte{}, stream...)
			dmg[rnd.Intn(len(dmg))] ^= 1 << uint(rnd.Intn(8))
			what = "bitflip"
		default:
			dmg = append([]byte{}, stream...)
			dmg[rnd.Intn(len(dmg))] = byte(rnd.Intn(256))
			what = "byteset"
		}
		if bytes.Equal(dmg, stream) {
			continue
		}
		ver := version
		if b%7 == 0 {
			ver++
		}
		bsize := size
		if b%2 == 1 {
			bsize = 1 + size/4 // a cache that is full long before the stream ends
		}
		rec, kind, s2 := vPLoad(dmg, ver, bsize)
		rec["ev"] = "byteload"
		rec["fault"] = what
		rec["err"] = kind
		rec["ver"] = int64(ver)
		rec["origin_ok"] = vb(s2.timerwheel.clock.Start.UnixNano() == origin)
		tr.Emit(rec)
		s2.Close()
	}
}

func TestVerif_Persist(t *testing.T) {
	out := vOutDir(t)
	tr := vNewTrace(filepath.Join(out, "persist.ndjson"))
	defer tr.Close()
	n := vEnvInt("VERIF_N", 12)
	bn := vEnvInt("VERIF_BYTES", 60)
	for i := 0; i < n; i++ {
		vPersistRun(tr, fmt.Sprintf("p%d", i), int64(i), bn)
	}
	vSummary(out, "persist.json", map[string]any{"runs": n, "events": tr.n})
}
