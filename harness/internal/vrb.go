package internal

// RBMutex harness (C01 / C19 rest on the shard lock): the real RBMutex is driven one atomic
// operation at a time. Every goroutine parks at every verif hook of rbmutex.go; a seeded
// scheduler releases one parked goroutine, waits until it parks again and logs the lock's state
// (rbias, slot counters) together with where the goroutine went. rw.Lock / rw.RLock are released
// only when the underlying RWMutex can be taken (shadow state kept by the scheduler), so nobody
// blocks inside the runtime. TLC takes the same step in RBMutex.tla and compares (RBMutexTrace);
// the number of readers and writers inside the lock is logged from the harness's own view and
// must satisfy the lock's contract.

import (
	"fmt"
	"path/filepath"
	"sync"
	"sync/atomic"
	"testing"
	"time"
)

const (
	vRbIdle = -10 // harness gates
	vRbCS   = -11
)

var vRbNames = map[int]string{
	VpRbLoadBias: "LoadBias", VpRbLoadSlot: "LoadSlot", VpRbCasSlot: "CasSlot", VpRbRecheck: "Recheck", VpRbRollback: "Rollback",
	VpRbSlowRLock: "SlowRLock", VpRbTryRLock: "TryRLock", VpRbSlowBias: "SlowBias", VpRbSlowSet: "SlowSet", VpRbRUnlock: "RUnlock",
	VpRbLock: "Lock", VpRbTryLock: "TryLock", VpRbWBias: "WBias", VpRbWClear: "WClear", VpRbWSpin: "WSpin", VpRbTryScan: "TryScan",
	VpRbTryBack: "TryBack", VpRbTryUnlock: "TryUnlock", VpRbUnlock: "Unlock", vRbIdle: "idle", vRbCS: "cs",
}

type vRbPark struct {
	ch    chan struct{}
	point int
	n     int64
}

type vRbSched struct {
	mu     sync.Mutex
	m      *RBMutex
	procs  map[int64]int
	parked map[int]*vRbPark
	done   map[int]bool
	arrive chan struct{}
}

func (s *vRbSched) park(p int, point int, n int64) {
	pk := &vRbPark{ch: make(chan struct{}), point: point, n: n}
	s.mu.Lock()
	s.parked[p] = pk
	s.mu.Unlock()
	select {
	case s.arrive <- struct{}{}:
	default:
	}
	<-pk.ch
}

func (s *vRbSched) handle(point int, a, b, c any, n []int64) {
	if point < VpRbLoadBias || point > VpRbUnlock {
		return
	}
	if mm, ok := a.(*RBMutex); !ok || mm != s.m {
		return
	}
	g := vGoid()
	s.mu.Lock()
	p, ok := s.procs[g]
	s.mu.Unlock()
	if !ok {
		return
	}
	s.park(p, point, vN(n, 0))
}

func (s *vRbSched) get(p int) *vRbPark {
	s.mu.Lock()
	defer s.mu.Unlock()
	return s.parked[p]
}

func (s *vRbSched) settled(p int) bool {
	s.mu.Lock()
	defer s.mu.Unlock()
	return s.parked[p] != nil || s.done[p]
}

func (s *vRbSched) waitSettled(p int, d time.Duration) bool {
	dl := time.Now().Add(d)
	for {
		if s.settled(p) {
			return true
		}
		if time.Now().After(dl) {
			return false
		}
		select {
		case <-s.arrive:
		case <-time.After(200 * time.Microsecond):
		}
	}
}

// vRbRun: one history. readers/writers goroutines, each doing ops lock/unlock pairs.
func vRbRun(tr *vTrace, id string, salt int64, ns int) (hang bool) {
	rnd := vRand(salt)
	nr := 1 + rnd.Intn(3)
	nw := 1 + rnd.Intn(2)
	ops := 2 + rnd.Intn(3)
	m := &RBMutex{rslots: make([]rslot, ns), rmask: uint32(ns - 1), rbias: 1}
	s := &vRbSched{m: m, procs: map[int64]int{}, parked: map[int]*vRbPark{}, done: map[int]bool{}, arrive: make(chan struct{}, 1024)}
	var hd VerifHandler = s.handle
	SetVerifHandler(hd)
	defer SetVerifHandler(nil)
	tr.Emit(vRec{"ev": "reset", "id": id, "ns": ns, "readers": nr, "writers": nw, "mode": "rbmutex"})
	// process ids as in RBMutexTrace.cfg: readers 1..3, writers 4..5
	var ids []int
	for i := 1; i <= nr; i++ {
		ids = append(ids, i)
	}
	for j := 1; j <= nw; j++ {
		ids = append(ids, 3+j)
	}
	kind := make([]string, 6) // current op of each process
	var inR, inW atomic.Int32
	var wg sync.WaitGroup
	for _, p := range ids {
		reader := p <= 3
		seed := rnd.Int63()
		wg.Add(1)
		go func(p int, reader bool, seed int64) {
			defer wg.Done()
			r := vRand(seed)
			gid := vGoid()
			s.mu.Lock()
			s.procs[gid] = p
			s.mu.Unlock()
			defer func() {
				s.mu.Lock()
				delete(s.procs, gid)
				s.done[p] = true
				s.mu.Unlock()
				select {
				case s.arrive <- struct{}{}:
				default:
				}
			}()
			for i := 0; i < ops; i++ {
				try := r.Intn(4) == 0
				s.mu.Lock()
				switch {
				case reader && try:
					kind[p] = "tryrlock"
				case reader:
					kind[p] = "rlock"
				case try:
					kind[p] = "trylock"
				default:
					kind[p] = "lock"
				}
				s.mu.Unlock()
				s.park(p, vRbIdle, 0)
				if reader {
					var tk *RToken
					ok := true
					if try {
						ok, tk = m.TryRLock()
					} else {
						tk = m.RLock()
					}
					if !ok {
						continue
					}
					inR.Add(1)
					s.park(p, vRbCS, 0)
					inR.Add(-1)
					m.RUnlock(tk)
				} else {
					ok := true
					if try {
						ok = m.TryLock()
					} else {
						m.Lock()
					}
					if !ok {
						continue
					}
					inW.Add(1)
					s.park(p, vRbCS, 0)
					inW.Add(-1)
					m.Unlock()
				}
			}
		}(p, reader, seed)
	}
	for _, p := range ids {
		if !s.waitSettled(p, 3*time.Second) {
			tr.Emit(vRec{"ev": "hang", "p": p, "op": "start"})
			return true
		}
	}
	rwR, rwW := 0, false // shadow of the underlying RWMutex
	steps := 0
	for {
		// enabled parked processes
		var en []int
		live := 0
		for _, p := range ids {
			pk := s.get(p)
			if pk == nil {
				continue
			}
			live++
			switch pk.point {
			case VpRbSlowRLock:
				if rwW {
					continue
				}
			case VpRbLock:
				if rwW || rwR > 0 {
					continue
				}
			}
			en = append(en, p)
		}
		if live == 0 {
			break
		}
		if len(en) == 0 || steps > 4000 {
			tr.Emit(vRec{"ev": "hang", "p": 0, "op": "nobody_enabled"})
			return true
		}
		p := en[rnd.Intn(len(en))]
		pk := s.get(p)
		s.mu.Lock()
		delete(s.parked, p)
		op := kind[p]
		s.mu.Unlock()
		close(pk.ch)
		if !s.waitSettled(p, 3*time.Second) {
			tr.Emit(vRec{"ev": "hang", "p": p, "op": vRbNames[pk.point]})
			return true
		}
		steps++
		next := "done"
		var nn int64
		if q := s.get(p); q != nil {
			next = vRbNames[q.point]
			nn = q.n
		}
		// shadow RWMutex
		switch pk.point {
		case VpRbSlowRLock:
			rwR++
		case VpRbTryRLock:
			if next == "SlowBias" {
				rwR++
			}
		case VpRbRUnlock:
			if pk.n < 0 {
				rwR--
			}
		case VpRbLock:
			rwW = true
		case VpRbTryLock:
			if next == "WBias" {
				rwW = true
			}
		case VpRbUnlock, VpRbTryUnlock:
			rwW = false
		}
		sl := make([]int, ns)
		for i := range sl {
			sl[i] = int(atomic.LoadInt32(&m.rslots[i].mu))
		}
		tr.Emit(vRec{"ev": "step", "p": p, "reader": vb(p <= 3), "op": op, "at": vRbNames[pk.point], "n": pk.n, "next": next, "nn": nn,
			"rbias": int(atomic.LoadInt32(&m.rbias)), "slots": sl, "csr": int(inR.Load()), "csw": int(inW.Load())})
	}
	if !vTimed(3*time.Second, wg.Wait) {
		tr.Emit(vRec{"ev": "hang", "p": 0, "op": "exit"})
		return true
	}
	tr.Emit(vRec{"ev": "end", "steps": steps})
	return false
}

func TestVerif_RBMutex(t *testing.T) {
	out := vOutDir(t)
	vStoreMu.Lock()
	defer vStoreMu.Unlock()
	n := vEnvInt("VERIF_N", 100)
	base := int64(vEnvInt("VERIF_SEED", 1)) * 100003
	hangs, events := 0, int64(0)
	// one trace file per number of slots (the specification is instantiated per file)
	for _, ns := range []int{1, 2, 4} {
		tr := vNewTrace(filepath.Join(out, fmt.Sprintf("rbmutex_ns%d.ndjson", ns)))
		for i := 0; i < n; i++ {
			if vRbRun(tr, fmt.Sprintf("rb%d_%d", ns, i), base+int64(ns*7919+i), ns) {
				hangs++
				break
			}
		}
		events += tr.n
		tr.Close()
	}
	vSummary(out, "rbmutex.json", map[string]any{"runs": 3 * n, "hangs": hangs, "events": events})
}
