SPECIFICATION MCSpec
CONSTANTS
  Cap = 1
  N = 3
  SignedCmp = TRUE
  MaxOps = 6
INVARIANTS InvStructure InvBounds InvWithinCap InvEvicted
