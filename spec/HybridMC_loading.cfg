SPECIFICATION Spec
CONSTANTS
  Keys = {1, 2}
  MaxVal = 3
  MaxTime = 2
  TTLs = {0, 1}
  FixB = TRUE
  FixC = TRUE
  FixD = TRUE
  FixE = TRUE
  Loading = TRUE
INVARIANTS Fresh Demoted ClosedQuiet
