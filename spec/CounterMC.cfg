SPECIFICATION Spec
CONSTANTS
  Procs = {p1, p2, p3}
  NStripes = 2
  MaxAdds = 5
  Cas = TRUE
INVARIANT NoLostUpdate
