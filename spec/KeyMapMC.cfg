SPECIFICATION Spec
CONSTANTS
  Keys = {1, 2, 3}
  HashVals = {0, 1}
  NShards = 2
  MaxVal = 3
  ByHash = FALSE
INVARIANTS NoAlias
PROPERTIES Stable
