------------------------------ MODULE StoreSim ------------------------------
(* Behaviour generator for the gate scheduler: random walks of Store.tla with a history    *)
(* variable holding one harness step per gate-to-gate action; written as NDJSON, one file   *)
(* per behaviour, first record = configuration of the real store.                          *)
EXTENDS StoreMC, Json, IOUtils, SequencesExt

CONSTANTS Depth, Gates, Shift, Start, MaxTicks
VARIABLE hist

H(r) == hist' = Append(hist, r)
H2(r1, r2) == hist' = Append(Append(hist, r1), r2)
HN == hist' = hist

GatesAll == <<"PreSend", "MaintTop", "MaintPreLock", "SinkIn", "RemoveIn", "Recheck", "PreWake", "MaintUnlock", "TickPreLock", "TickDone", "WaitMid">>

Cfg == [a |-> "cfg", maxsize |-> MaxSize, qcap |-> QCap, batchmax |-> BatchMax, shift |-> Shift, start |-> Start,
        gates |-> Gates, door |-> (IF Door THEN 1 ELSE 0), pool |-> 0, loading |-> 0]

SimInit == Init /\ hist = <<Cfg>>

SimNext ==
  \/ \E c \in Clients, k \in Keys, cost \in Costs, ttl \in TTLs :
        SetMap(c, k, cost, ttl) /\ H([a |-> "set", p |-> c, k |-> k, cost |-> cost, ttl |-> ttl])
  \/ \E c \in Clients, k \in Keys, cost \in Costs :
        SetRefused(c, k, cost) /\ H([a |-> "set", p |-> c, k |-> k, cost |-> cost, ttl |-> 0])
  \/ \E c \in Clients, k \in Keys : DelMap(c, k) /\ H([a |-> "del", p |-> c, k |-> k])
  \/ \E c \in Clients, k \in Keys : Get(c, k) /\ H([a |-> "get", p |-> c, k |-> k])
  \/ \E c \in Clients : Send(c) /\ H([a |-> "step", p |-> c])
  \/ \E c \in Clients : SendCancelled(c) /\ H([a |-> "step", p |-> c])
  \/ \E c \in Clients : WaitSend(c) /\ H2([a |-> "wait", p |-> c], [a |-> "step", p |-> c])
  \/ \E c \in Clients : WakeShared(c) /\ H2([a |-> "step", p |-> c], [a |-> "m"])
  \/ \E c \in Clients : WaitCancelled(c) /\ (IF cpc[c] = "waitrecv" THEN H([a |-> "step", p |-> c]) ELSE H([a |-> "wait", p |-> c]))
  \/ WakeOwn /\ (LET ws == SetToSeq({c \in Clients : cpc[c] = "waitrecv" /\ <<c, cnt[c]>> \in hadWait}) IN
                  hist' = Append(hist, [a |-> "m"]) \o [i \in 1..Len(ws) |-> [a |-> "step", p |-> ws[i]]])
  \/ \E c \in Clients : CloseShards(c) /\ H([a |-> "close", p |-> c])
  \/ \E c \in Clients : CloseCancel(c) /\ HN
  \/ \E n \in 1..BatchMax : TakeBatch(n) /\ H([a |-> "m", n |-> n])
  \/ MExit /\ H([a |-> "m"])
  \/ MLock /\ H([a |-> "m"])
  \/ ApplyHead /\ (IF Head(batch).code = "WAIT" THEN HN ELSE H([a |-> "m"]))
  \/ \E e \in Ids : EvPick(e) /\ HN
  \/ EvDone /\ HN
  \/ EndBatch /\ HN
  \/ MUnlock /\ H([a |-> "m"])
  \/ RmIn("m") /\ H([a |-> "m"])
  \/ RmRecheck("m") /\ H([a |-> "m"])
  \/ TickLock /\ Cardinality({i \in DOMAIN hist : hist[i].a = "tick"}) < MaxTicks /\ H([a |-> "tick"])
  \/ \E e \in Ids : ExpPick(e) /\ HN
  \/ RmIn("t") /\ H([a |-> "t"])
  \/ RmRecheck("t") /\ H([a |-> "t"])
  \/ TickUnlock /\ H([a |-> "t"])
  \/ \E d \in AdvSteps : Advance(d) /\ H([a |-> "adv", d |-> d])

SimSpec == SimInit /\ [][SimNext]_<<vars, hist>>

\* export when the walk reaches its depth bound or nothing more can happen
Export ==
  IF TLCGet("level") >= Depth \/ ~ENABLED SimNext
  THEN ndJsonSerialize(IOEnv.VERIF_SIMDIR \o "/sim_" \o ToString(TLCGet("stats").traces) \o ".ndjson", hist)
  ELSE TRUE
=============================================================================
