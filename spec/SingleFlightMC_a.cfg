SPECIFICATION Spec
CONSTANTS
  Callers = {1, 2, 3}
  Keys = {1, 2}
  Recs = {1, 2, 3, 4, 5, 6}
  MaxCalls = 1
  Outcomes = {"ok", "err", "panic", "goexit"}
INVARIANTS OneLoader TableLive NoBad PoolFree
CHECK_DEADLOCK TRUE
