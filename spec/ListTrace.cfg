SPECIFICATION TraceSpec
CONSTANTS
  Ents = {1, 2, 3, 4, 5, 6, 7, 8}
  NLists = 5
  LType <- TrLType
  Weights = {1, 2, 5}
  OtherEnts = {1, 2, 3}
CHECK_DEADLOCK FALSE
