----------------------------- MODULE HybridTrace -----------------------------
(* Trace validation for C14 / C15 (hybrid cache: memory tier + secondary tier).              *)
(* Events: API calls of a sequential client (set / hget / hdel) with results, every call the  *)
(* scripted secondary store received (sec get/set/del with value and deadline), store hook    *)
(* events (entries created / updated, hand-off to the workers, worker copy and map removal,   *)
(* direct eviction), "settled" points (write queue drained, workers idle).                    *)
(*                                                                                         *)
(* Observer: cur[k] = what the completed API calls say key k holds (value of the last         *)
(* completed Set or load, its deadline, deleted or not); sec[k] = content of the secondary    *)
(* tier; en[e] = entry objects of the memory tier.                                            *)
(* C14: a Get never returns a value other than cur[k].v, never after a completed Delete,      *)
(*      never past the deadline.                                                              *)
(* C10: after Close nothing is served, writes are refused, background goroutines are gone.   *)
(* C15: an entry evicted for capacity reaches the secondary tier before its slot disappears   *)
(*      (unless the tier already holds the identical value); after things have settled a key  *)
(*      that was neither deleted nor expired is still found (no reload); memory stays bounded *)
(*      when the secondary store fails.                                                       *)
EXTENDS Integers, Sequences, FiniteSets, TLC, Json, IOUtils
Trace == ndJsonDeserialize(IOEnv.VERIF_TRACE)
VARIABLES l, st, done
KeyDom == 0..40
CapU == 536870912

Get(f, x, d) == IF x \in DOMAIN f THEN f[x] ELSE d
Put(f, x, v) == IF x \in DOMAIN f THEN [f EXCEPT ![x] = v] ELSE f @@ (x :> v)
NoCur == [has |-> FALSE, v |-> 0, dl |-> 0, deleted |-> FALSE, gen |-> 0]
NoSec == [has |-> FALSE, v |-> 0, dl |-> 0, gen |-> 0]
NoEn == [k |-> 0, v |-> 0, dl |-> 0, loader |-> FALSE, promoted |-> FALSE]
NoCall == [op |-> "none", k |-> 0, v |-> 0, ttl |-> 0, t |-> 0]

Init0 == [tid |-> "none", line |-> 0, maxsize |-> 0, loading |-> 0, failing |-> 0, now |-> 0,
          cur |-> [k \in KeyDom |-> NoCur], sec |-> [k \in KeyDom |-> NoSec], en |-> <<>>, call |-> NoCall,
          gen |-> 0, secGot |-> <<0, 0, 0>>, secDelByGet |-> FALSE, loaded |-> FALSE, loadv |-> 0, loadttl |-> 0,
          pendDemote |-> {}, lastfail |-> FALSE, final |-> FALSE, lastdl |-> 0, failedEnt |-> {}, taint |-> [k \in KeyDom |-> -1], kflost |-> {}, kflostD |-> {}, copied |-> <<>>,
          closed |-> FALSE, viol |-> {}, traces |-> 0, gets |-> 0, demotions |-> 0, kfail |-> {}, owedDel |-> {}, lastEnt |-> 0]

V(s, prop, kind) == IF Cardinality({x \in s.viol : x[1] = prop /\ x[4] = kind}) >= 25 THEN s ELSE [s EXCEPT !.viol = @ \cup {<<prop, s.tid, s.line, kind>>}]
Vif(s, c, prop, kind) == IF c THEN V(s, prop, kind) ELSE s
En(s, e) == Get(s.en, e, NoEn)
ExpDl(t, ttl, old) == IF ttl > 0 THEN (IF ttl >= CapU - t THEN CapU ELSE t + ttl) ELSE old

DoReset(s, e) == [Init0 EXCEPT !.tid = e.id, !.maxsize = e.maxsize, !.loading = e.loading, !.failing = e.failing, !.now = e.t,
                               !.viol = s.viol, !.traces = s.traces + 1, !.gets = s.gets, !.demotions = s.demotions]

DoCall(s, e) == [s EXCEPT !.call = [op |-> e.op, k |-> e.k, v |-> e.v, ttl |-> e.ttl, t |-> e.t],
                          !.secGot = <<0, 0, 0>>, !.secDelByGet = FALSE, !.loaded = FALSE]

DoRet(s, e) ==
  LET c == s.call  k == c.k  cu == s.cur[k] IN
  CASE s.closed ->
         \* C10 on the hybrid cache: after Close has returned nothing is served (not out of the secondary
         \* tier either), a loading Get reports the closed cache
         IF e.op = "hget"
         THEN Vif(Vif(s, e.ok = 1 /\ s.loading = 0, "C10", "hybrid_get_served_after_close"),
                  s.loading = 1 /\ e.n # 2, "C10", "loading_get_after_close_not_cache_closed_error")
         ELSE s      \* a Set after Close reports TRUE in this code base; "no effect" is judged by the Gets that follow
    [] e.op = "close" -> [s EXCEPT !.closed = TRUE]
    [] e.op = "set" ->
         IF e.ok = 1
         THEN [s EXCEPT !.gen = s.gen + 1, !.taint = [s.taint EXCEPT ![k] = -1], !.kflost = @ \ {k}, !.kflostD = @ \ {k},
                        \* (a Set that went into an entry the secondary store has refused shares that entry's fate)
                        !.kfail = IF s.lastEnt \in s.failedEnt THEN @ ELSE @ \ {k},
                        !.cur = [s.cur EXCEPT ![k] = [has |-> TRUE, v |-> c.v, deleted |-> FALSE, gen |-> s.gen + 1,
                                                       dl |-> s.lastdl]]]     \* the deadline the store computed (C03 checks that computation)
         ELSE s
    [] e.op = "hdel" -> [s EXCEPT !.cur = [s.cur EXCEPT ![k] = [cu EXCEPT !.deleted = TRUE]]]
    [] e.op = "hget" ->
         LET fromSec == s.secGot[1] = 1 /\ e.ok = 1 /\ e.v = s.secGot[2]
             secOld == s.sec[k].gen < cu.gen                 \* the secondary copy predates the last completed Set
             expired == cu.has /\ ~cu.deleted /\ cu.dl # 0 /\ cu.dl <= c.t
             hit == e.ok = 1 /\ ~s.loaded
             s1 == [s EXCEPT !.gets = s.gets + 1]
             \* C14
             a == Vif(s1, hit /\ cu.has /\ cu.deleted, "C14",
                      IF fromSec THEN "deleted_key_served_from_secondary_tier" ELSE "deleted_value_served")
             \* a stale copy promoted from the secondary tier keeps being served from memory afterwards: same finding
             sameStale == s.taint[k] = e.v
             b0 == Vif(a, hit /\ cu.has /\ ~cu.deleted /\ e.v # cu.v, "C14",
                      IF (fromSec /\ secOld) \/ sameStale THEN "older_secondary_copy_served_after_newer_set" ELSE "stale_value_served")
             b == IF hit /\ cu.has /\ ~cu.deleted /\ e.v # cu.v /\ fromSec THEN [b0 EXCEPT !.taint = [s.taint EXCEPT ![k] = e.v]] ELSE b0
             d == Vif(b, hit /\ cu.has /\ ~cu.deleted /\ e.v = cu.v /\ expired, "C14",
                      IF fromSec THEN "expired_secondary_copy_served" ELSE "expired_value_served")
             f == Vif(d, hit /\ ~cu.has, "C14", "value_for_key_never_stored")
             \* C15: once settled, a live key is found without reloading
             live == cu.has /\ ~cu.deleted /\ ~expired
             \* (a key whose evicted entry the workers could not copy because the secondary store failed is excused)
             lost == s.final /\ live /\ ~hit /\ k \notin s.kfail
             g == Vif(f, lost, "C15",
                      IF s.secDelByGet /\ s.secGot[3] = 0 THEN "entry_without_ttl_treated_as_expired_on_promotion"
                      ELSE IF k \in s.kflost THEN "entry_evicted_without_identical_copy_in_secondary"
                      ELSE IF k \in s.kflostD THEN "slot_removed_by_worker_after_entry_was_updated_since_its_copy"
                      ELSE "live_value_lost_instead_of_demoted")
             \* a reload defines the key's value from now on
             h == IF s.loaded /\ e.ok = 1
                  THEN [g EXCEPT !.gen = s.gen + 1, !.kfail = @ \ {k},
                                 !.cur = [g.cur EXCEPT ![k] = [has |-> TRUE, v |-> s.loadv, deleted |-> FALSE, gen |-> s.gen + 1,
                                                               dl |-> s.lastdl]]]
                  ELSE g
         IN h
    [] OTHER -> s

DoSec(s, e) ==
  CASE e.op = "set" /\ e.ok = 1 -> [s EXCEPT !.sec = [s.sec EXCEPT ![e.k] = [has |-> TRUE, v |-> e.v, dl |-> e.dl, gen |-> s.gen]],
                                            !.lastfail = FALSE]
    [] e.op = "set" /\ e.ok = 0 -> [s EXCEPT !.lastfail = TRUE]
    [] e.op = "del" -> [s EXCEPT !.sec = [s.sec EXCEPT ![e.k] = NoSec],
                                 !.secDelByGet = (s.call.op = "hget" /\ s.call.k = e.k) \/ @]
    [] e.op = "get" -> [s EXCEPT !.secGot = IF s.call.op = "hget" /\ s.call.k = e.k THEN <<e.ok, e.v, e.dl>> ELSE @]
    [] OTHER -> s

DoSetEv(s, e) ==
  LET byLoader == s.call.op = "hget" /\ s.loaded
      \* created by promotion of a secondary copy: carries the from-secondary flag for the rest of its life
      prom == IF e.ev = "setnew" THEN (s.call.op = "hget" /\ ~s.loaded /\ s.secGot[1] = 1) ELSE En(s, e.e).promoted
  IN [s EXCEPT !.en = Put(s.en, e.e, [k |-> e.k, v |-> e.v, dl |-> e.dl, loader |-> byLoader, promoted |-> prom]), !.lastdl = e.dl, !.lastEnt = e.e]

\* eviction hands the entry to the workers
DoHandoff(s, e) == [s EXCEPT !.pendDemote = @ \cup {e.e}]

\* worker removed the map slot after copying
DoSecDel(s, e) ==
  LET o == En(s, e.e) IN
  IF e.deleted = 1
  THEN LET nocopy == e.e \notin s.failedEnt /\ ~(s.sec[o.k].has /\ s.sec[o.k].v = o.v)
            \* the worker did copy the entry, but a Set updated it in place before the worker removed the slot (D14d)
            updated == nocopy /\ e.e \in DOMAIN s.copied /\ s.copied[e.e] # o.v
            s1 == Vif(s, nocopy, "C15", IF updated THEN "slot_removed_by_worker_after_entry_was_updated_since_its_copy"
                                       ELSE "slot_removed_by_worker_without_copy_in_secondary")
        IN [s1 EXCEPT !.pendDemote = @ \ {e.e}, !.demotions = s.demotions + 1,
                      !.kflostD = IF updated THEN @ \cup {o.k} ELSE @,
                      \* the slot goes because the secondary store refused this entry: whatever value a Set has
                      \* put into the doomed entry since is lost with it - a loss the failing store explains (C15
                      \* claims demotion for a working store only)
                      !.kfail = IF e.e \in s.failedEnt THEN @ \cup {o.k} ELSE @]
  ELSE [s EXCEPT !.pendDemote = @ \ {e.e}]

\* direct removal by eviction (no hand-off): the tier must already hold the identical value
DoMapRemoved(s, e) ==
  LET o == En(s, e.e)
      badEv == e.reason = "EVICTED" /\ e.deleted = 1 /\ ~(s.sec[o.k].has /\ s.sec[o.k].v = o.v /\ s.sec[o.k].dl = o.dl)
      \* the recorded finding D14b: an entry created by promotion and updated in place since, so that the tier
      \* still holds the copy it was promoted from; a promoted entry with no copy at all in the tier is something else
      d14b == o.promoted /\ s.sec[o.k].has
      s1 == Vif(s, badEv, "C15", IF d14b THEN "entry_evicted_without_identical_copy_in_secondary"
                                 ELSE IF o.promoted THEN "promoted_entry_evicted_with_no_copy_in_secondary"
                                 ELSE IF o.loader THEN "loader_entry_evicted_without_demotion" ELSE "set_entry_evicted_without_demotion")
  IN IF badEv /\ d14b THEN [s1 EXCEPT !.kflost = @ \cup {o.k}] ELSE s1

DoSettled(s, e) ==
  LET a0 == Vif(s, e.resident > s.maxsize, "C15", "memory_tier_above_maxsize_after_settling")
      \* the same observation is C02's: after everything has drained the resident entries (unit costs) fit MaxSize
      a == Vif(a0, e.resident > s.maxsize, "C02", "hybrid_resident_entries_above_maxsize_after_settling")
      \* C02 on the hybrid store: with the queue drained and the workers idle, the policy knows exactly the resident
      \* entries (nothing resident that can no longer be evicted, nothing tracked that is gone) with their costs
      b == Vif(a, "ghost" \in DOMAIN e /\ ~s.closed /\ (e.ghost > 0 \/ e.untracked > 0 \/ e.ws # e.rcost), "C02",
               "hybrid_policy_view_differs_from_resident_entries_after_settling")
  IN Vif(b, s.failing = 1 /\ s.lastfail /\ e.errs = 0, "C15", "secondary_failure_not_reported_to_error_handler")

Upd(s0, e) ==
  LET s == s0 IN
  CASE e.ev = "reset" -> DoReset(s, e)
    [] e.ev = "call" -> DoCall(s, e)
    [] e.ev = "ret" -> DoRet(s, e)
    [] e.ev = "sec" -> DoSec(s, e)
    [] e.ev \in {"setnew", "setupd"} -> DoSetEv(s, e)
    [] e.ev = "load" -> [s EXCEPT !.loaded = TRUE, !.loadv = e.v, !.loadttl = e.ttl]
    [] e.ev = "handoff" -> DoHandoff(s, e)
    [] e.ev = "secset" -> IF e.ok = 0 THEN [s EXCEPT !.failedEnt = @ \cup {e.e}, !.kfail = @ \cup {En(s, e.e).k}]
                          ELSE [s EXCEPT !.copied = Put(s.copied, e.e, s.sec[En(s, e.e).k].v)]
    [] e.ev = "secdel" -> DoSecDel(s, e)
    [] e.ev = "mapremoved" -> DoMapRemoved(s, e)
    \* C05 on the hybrid store: a Delete that took an entry out of the memory tier owes a REMOVED notification with
    \* that entry's key and value; it has arrived once the write queue is drained
    [] e.ev = "del" -> IF e.ok = 1 /\ e.e \in DOMAIN s.en THEN [s EXCEPT !.owedDel = @ \cup {<<e.k, s.en[e.e].v>>}] ELSE s
    [] e.ev = "notify" -> IF e.reason = "REMOVED" THEN [s EXCEPT !.owedDel = @ \ {<<e.k, e.v>>}] ELSE s
    [] e.ev = "settled" -> LET s1 == DoSettled(s, e) IN
                           [Vif(s1, s.owedDel # {} /\ ~s.closed, "C05", "hybrid_delete_of_resident_entry_not_notified_after_settling") EXCEPT !.owedDel = {}]
    [] e.ev = "adv" -> [s EXCEPT !.now = e.t]
    [] e.ev = "final" -> [s EXCEPT !.final = TRUE]
    [] e.ev = "hang" -> V(s, "C10", "call_did_not_return_" \o e.op)
    [] e.ev = "census" -> Vif(s, e.after > e.before, "C10", "background_goroutine_alive_after_close")
    [] OTHER -> s

TraceInit == l = 1 /\ st = Init0 /\ done = FALSE
Step == l <= Len(Trace) /\ st' = Upd([st EXCEPT !.line = l], Trace[l]) /\ l' = l + 1 /\ UNCHANGED done
Finish == /\ l = Len(Trace) + 1 /\ ~done /\ done' = TRUE
          /\ JsonSerialize(IOEnv.VERIF_RESULT, [lines |-> Len(Trace), consumed |-> l - 1, viol |-> st.viol, traces |-> st.traces,
                                                  gets |-> st.gets, demotions |-> st.demotions])
          /\ UNCHANGED <<l, st>>
TraceSpec == TraceInit /\ [][Step \/ Finish]_<<l, st, done>>
=============================================================================
