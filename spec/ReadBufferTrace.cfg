SPECIFICATION TraceSpec
CONSTANTS
  Cap = 16
  Readers = {1, 2, 3, 4, 5, 6, 7, 8}
  MaxAdds = 1000
  Fixed = TRUE
