SPECIFICATION Spec
CONSTANTS
  Buckets <- ScaledBuckets
  Shift <- ScaledShift
  Spans <- ScaledSpans
  Entries = {e1, e2}
  Fixed = TRUE
  Offsets = {1,2,7,8,9,31,33,65,129}
  Steps = {1,3,8,9,33,65,129}
  MaxTime = 150
INVARIANTS NeverEarly NoOverdue PosOK
