SPECIFICATION SimSpec
CONSTANTS
  Cap = 16
  Readers = {1, 2, 3}
  MaxAdds = 14
  Fixed = TRUE
  Depth = 400
CONSTRAINT Export
