SPECIFICATION SimSpec
CONSTANTS
  Cap = 16
  Readers = {1, 2, 3}
  MaxAdds = 20
  Fixed = TRUE
  Depth = 600
CONSTRAINT Export
