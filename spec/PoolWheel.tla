----------------------------- MODULE PoolWheel -----------------------------
(* The life of one entry object under the entry pool (internal/store.go: setShardWithoutLock,  *)
(* sinkWrite, removeEntry, postDelete; README: "the pool can misapply events"), reduced to what *)
(* D22 needs: events are built under the shard lock and applied later by the maintenance       *)
(* goroutine, and between the two the object may leave the cache, be reset and handed out for  *)
(* another Set.  One object, one shard slot, a FIFO event queue.                               *)
(*                                                                                             *)
(*   Insert(ttl)   the object is taken from the pool for a Set (with or without TTL): NEW queued *)
(*   Update        SetWithTTL on the resident object: new deadline, UPDATE(reschedule) queued  *)
(*   Evict         the policy evicts the tracked object: removed flag, untracked, off the       *)
(*                 wheel, slot removed, postDelete clears the flag byte, object in the pool     *)
(*   Apply         the head of the queue is applied as sinkWrite does                           *)
(*   Tick          the wheel hands a linked object to removeEntry(EXPIRED) once its slot's      *)
(*                 deadline has passed: the re-check compares the object's *current* deadline   *)
(*                                                                                             *)
(* FixD22 = FALSE is the code before 32f7088: an UPDATE with the reschedule bit links the       *)
(* object into the wheel whether or not the policy tracks it.  FixD22 = TRUE: only a tracked    *)
(* object is rescheduled.  Property (C06): an entry stored without TTL is never removed as      *)
(* EXPIRED, and a free object is never linked into the wheel.                                   *)
EXTENDS Integers, Sequences
CONSTANTS FixD22, MaxLife      \* MaxLife bounds the number of incarnations

VARIABLES
  inMap,     \* the object is the value of the shard slot
  free,      \* the object sits in the pool
  dl,        \* its deadline field (0 = none); set by Insert / Update under the shard lock
  removed,   \* flag bit, cleared by postDelete and by NEW
  tracked,   \* linked into a policy list
  wheelAt,   \* 0 = not on the wheel, else the deadline it was scheduled under
  queue,     \* events: <<code, life>> with code in {"NEW", "UPD"}
  life,      \* incarnation counter (ghost)
  now,
  lostNoTtl  \* ghost: an incarnation without TTL was removed as EXPIRED
vars == <<inMap, free, dl, removed, tracked, wheelAt, queue, life, now, lostNoTtl>>

Init == /\ inMap = FALSE /\ free = TRUE /\ dl = 0 /\ removed = FALSE /\ tracked = FALSE /\ wheelAt = 0
        /\ queue = <<>> /\ life = 0 /\ now = 1 /\ lostNoTtl = FALSE

Insert(ttl) ==
  /\ free /\ life < MaxLife
  /\ free' = FALSE /\ inMap' = TRUE /\ life' = life + 1
  /\ dl' = IF ttl = 0 THEN 0 ELSE now + ttl
  /\ queue' = Append(queue, <<"NEW", life + 1>>)
  /\ UNCHANGED <<removed, tracked, wheelAt, now, lostNoTtl>>

Update ==
  /\ inMap /\ dl # 0 /\ Len(queue) < 3   \* (bound of the model) SetWithTTL on a resident entry: the deadline moves, reschedule requested
  /\ dl' = now + 3
  /\ queue' = Append(queue, <<"UPD", life>>)
  /\ UNCHANGED <<inMap, free, removed, tracked, wheelAt, life, now, lostNoTtl>>

\* removeEntry(EVICTED) followed by postDelete
Evict ==
  /\ tracked /\ inMap
  /\ tracked' = FALSE /\ wheelAt' = 0 /\ inMap' = FALSE
  /\ removed' = FALSE                    \* set by removeEntry, cleared again by postDelete (entry.flag = Flag{})
  /\ free' = TRUE
  /\ UNCHANGED <<dl, queue, life, now, lostNoTtl>>

Apply ==
  /\ queue # <<>>
  /\ queue' = Tail(queue)
  /\ LET code == Head(queue)[1] IN
     IF removed /\ code # "NEW" THEN UNCHANGED <<removed, tracked, wheelAt>>
     ELSE IF code = "NEW"
     THEN /\ removed' = FALSE
          /\ tracked' = TRUE
          /\ wheelAt' = IF dl # 0 THEN dl ELSE wheelAt      \* schedule only an entry with a deadline
     ELSE \* UPDATE with the reschedule bit (the pool's hash re-check passes: the object holds the same key)
          /\ wheelAt' = IF FixD22 /\ ~tracked THEN wheelAt ELSE dl
          /\ UNCHANGED <<removed, tracked>>
  /\ UNCHANGED <<inMap, free, dl, life, now, lostNoTtl>>

\* the wheel reaches the slot; removeEntry(EXPIRED) re-checks the current deadline under the shard lock and removes
\* the slot by identity
Tick ==
  /\ wheelAt # 0 /\ wheelAt <= now
  /\ IF dl > now
     THEN /\ wheelAt' = dl /\ UNCHANGED <<inMap, free, tracked, removed, lostNoTtl>>      \* re-check aborts, re-scheduled
     ELSE /\ wheelAt' = 0 /\ tracked' = FALSE
          /\ IF inMap
             THEN /\ inMap' = FALSE /\ free' = TRUE /\ removed' = FALSE
                  /\ lostNoTtl' = (lostNoTtl \/ dl = 0)
             ELSE UNCHANGED <<inMap, free, removed, lostNoTtl>>
  /\ UNCHANGED <<dl, queue, life, now>>

Advance == now < 8 /\ now' = now + 1 /\ UNCHANGED <<inMap, free, dl, removed, tracked, wheelAt, queue, life, lostNoTtl>>

Next == (\E ttl \in {0, 2} : Insert(ttl)) \/ Update \/ Evict \/ Apply \/ Tick \/ Advance
Spec == Init /\ [][Next]_vars

NoTtlNeverExpired == ~lostNoTtl
FreeNotLinked == (free /\ queue = <<>>) => wheelAt = 0
=============================================================================
