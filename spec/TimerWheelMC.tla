--------------------------- MODULE TimerWheelMC ---------------------------
(* Bounded exhaustive configuration of TimerWheel: scaled-down wheel, all deadlines and   *)
(* advance steps from the given sets, all sequences of schedule/re-schedule/deschedule/    *)
(* advance until MaxTime.                                                                 *)
EXTENDS TimerWheel

CONSTANTS Offsets,   \* deadline = nanos + offset
          Steps,     \* advance by one of these
          MaxTime

\* scaled-down wheel (same shape as the code: 5 levels, nested power-of-two spans)
ScaledBuckets == <<4, 4, 2, 2, 1>>
ScaledShift   == <<1, 3, 5, 6, 7>>
ScaledSpans   == <<2, 8, 32, 64, 128, 128>>

Next ==
  \/ \E e \in Entries, o \in Offsets : Schedule(e, nanos + o)
  \/ \E e \in Entries : Deschedule(e)
  \/ \E s \in Steps : nanos + s <= MaxTime /\ Advance(nanos + s)

Spec == Init /\ [][Next]_vars
=============================================================================
