SPECIFICATION HSpec
CONSTANTS
  Cap = 6
  N = 8
  SignedCmp = TRUE
  Hot = {1,2,3}
  MaxOps = 9
INVARIANTS HotRetained HotStructure
