SPECIFICATION Spec
CONSTANTS
  Ents = {1, 2, 3}
  NLists = 4
  LType <- MCLType4
  Weights = {1, 2}
  OtherEnts = {1}
CONSTRAINT Bounded
INVARIANT Inv
PROPERTIES OtherBitsKept LinkSetsIndependent
CHECK_DEADLOCK FALSE
