SPECIFICATION Spec
CONSTANTS
  Ents = {1, 2, 3, 4}
  NLists = 4
  LType <- MCLType4
  Weights = {1, 3}
  OtherEnts = {1}
CONSTRAINT Bounded
INVARIANT Inv
PROPERTIES OtherBitsKept LinkSetsIndependent
CHECK_DEADLOCK FALSE
