SPECIFICATION HSpec
CONSTANTS
  Cap = 4
  N = 6
  SignedCmp = TRUE
  Hot = {1,2}
  MaxOps = 9
INVARIANTS HotRetained HotStructure
