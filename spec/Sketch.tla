------------------------------- MODULE Sketch -------------------------------
(* Count-min frequency sketch of theine-go (internal/sketch.go).                          *)
(*                                                                                       *)
(* The table is `len` 64-bit words of sixteen 4-bit counters.  A key touches four         *)
(* counters, one in each of four distinct words of one 8-word block.  The index function  *)
(* needs 64-bit multiplication, which TLC cannot evaluate, so a key is represented by     *)
(* the 4-tuple of positions <<word, nibble>> it maps to: any tuple the index function may *)
(* produce.  The table is kept sparse (a function over the positions touched so far).     *)
EXTENDS Integers, Sequences, FiniteSets, TLC

VARIABLES tbl,        \* tbl[p] for p in DOMAIN tbl, p = <<word, nibble>>; absent = 0
          len,        \* number of words
          sample,     \* SampleSize
          additions,  \* Additions
          rec         \* ghost: rec[k] = recordings of k since the last reset, capped at 15; a reset
                      \* halves it (a counter that was >= min(15, n) is >= min(15, n) div 2 afterwards)

svars == <<tbl, len, sample, additions, rec>>

Val(t, p) == IF p \in DOMAIN t THEN t[p] ELSE 0

Min2(a, b) == IF a < b THEN a ELSE b
MinOf(S) == CHOOSE x \in S : \A y \in S : x <= y

\* a key is a sequence of four positions
PosSet(k) == {k[i] : i \in 1..4}
Estimate(t, k) == MinOf({Val(t, k[i]) : i \in 1..4})

WellFormed(k, n) ==           \* what indexOf guarantees for a table of n words
  /\ \A i \in 1..4 : k[i][1] \in 0..(n - 1) /\ k[i][2] \in 0..15
  /\ \A i, j \in 1..4 : i # j => k[i][1] # k[j][1]
  /\ \A i, j \in 1..4 : k[i][1] \div 8 = k[j][1] \div 8

\* four saturating increments (inc); `added` iff at least one counter moved
IncAll(t, k) ==
  [p \in DOMAIN t \cup PosSet(k) |->
      IF p \in PosSet(k) THEN Min2(Val(t, p) + 1, 15) ELSE Val(t, p)]
Added(t, k) == \E p \in PosSet(k) : Val(t, p) < 15

Halved(t) == [p \in DOMAIN t |-> t[p] \div 2]
OddCount(t) == Cardinality({p \in DOMAIN t : t[p] % 2 = 1})
\* reset(): every counter halved, Additions = (Additions - odd/4) / 2
ResetAdditions(a, t) == (a - (OddCount(t) \div 4)) \div 2

RECURSIVE IncN(_, _, _)
IncN(t, k, n) == IF n = 0 THEN t ELSE IncN(IncAll(t, k), k, n - 1)

Init0(n) ==
  /\ tbl = <<>> /\ len = n /\ sample = 10 * n /\ additions = 0
  /\ rec = <<>>

RecOf(k) == IF k \in DOMAIN rec THEN rec[k] ELSE 0
RecSet(k, v) == [x \in DOMAIN rec \cup {k} |-> IF x = k THEN v ELSE rec[x]]
RecHalved == [x \in DOMAIN rec |-> rec[x] \div 2]

\* Add(h): returns TRUE iff it triggered a reset
Add(k) ==
  LET t1 == IncAll(tbl, k)
      a1 == IF Added(tbl, k) THEN additions + 1 ELSE additions
      doReset == Added(tbl, k) /\ a1 = sample
  IN /\ tbl' = IF doReset THEN Halved(t1) ELSE t1
     /\ additions' = IF doReset THEN ResetAdditions(a1, t1) ELSE a1
     /\ rec' = IF doReset
               THEN [x \in DOMAIN rec \cup {k} |-> (IF x = k THEN Min2(15, RecOf(k) + 1) ELSE rec[x]) \div 2]
               ELSE RecSet(k, Min2(15, RecOf(k) + 1))
     /\ UNCHANGED <<len, sample>>

\* Addn(h, n): n rounds of four increments, additions untouched
Addn(k, n) ==
  /\ tbl' = IncN(tbl, k, n)
  /\ rec' = RecSet(k, Min2(15, RecOf(k) + n))
  /\ UNCHANGED <<len, sample, additions>>

NextPow2(n) == CHOOSE p \in {2^i : i \in 0..30} : p >= n /\ \A q \in {2^i : i \in 0..30} : q >= n => p <= q

\* EnsureCapacity(size)
Ensure(size) ==
  IF len >= size THEN UNCHANGED svars
  ELSE LET n == NextPow2(IF size < 16 THEN 16 ELSE size) IN
       /\ len' = n /\ sample' = 10 * n /\ additions' = 0 /\ tbl' = <<>> /\ rec' = <<>>

-----------------------------------------------------------------------------
(* Properties (C17) *)
NeverUnder == \A k \in DOMAIN rec : Estimate(tbl, k) >= Min2(15, rec[k])
AdditionsBelowSample == additions < sample      \* so the `==` test is never stepped over
InRange == \A p \in DOMAIN tbl : p[1] \in 0..(len - 1) /\ p[2] \in 0..15 /\ tbl[p] \in 0..15
NeverShrinks == [][len' >= len]_svars
=============================================================================
