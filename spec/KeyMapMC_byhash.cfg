SPECIFICATION Spec
CONSTANTS
  Keys = {1, 2, 3}
  HashVals = {0, 1}
  NShards = 2
  MaxVal = 3
  ByHash = TRUE
INVARIANTS NoAlias
PROPERTIES Stable
