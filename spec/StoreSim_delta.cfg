SPECIFICATION SimSpec
CONSTANTS
  Keys = {1}
  Clients = {1, 2, 3}
  MaxSize = 4
  Costs = {1, 3}
  TTLs = {0}
  QCap = 2
  BatchMax = 2
  MaxEnt = 9
  MaxTime = 4
  OpsPerClient = 2
  Allowed <- AllowAcct
  WithTicker = FALSE
  Thresh = 30
  AdvSteps = {1}
  StallOnly = FALSE
  Door = FALSE
  FixD2 = TRUE
  FixD6 = TRUE
  FixD7 = TRUE
  FixD16 = TRUE
  FixD10a = TRUE
  FixD20 = TRUE
  Depth = 45
  Gates <- GatesAll
  Shift = 30
  Start = 3
  MaxTicks = 0
CONSTRAINT Export
