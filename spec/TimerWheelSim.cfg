SPECIFICATION SimSpec
CONSTANTS
  Buckets <- ScaledBuckets
  Shift <- ScaledShift
  Spans <- ScaledSpans
  Entries = {1, 2, 3}
  Fixed = TRUE
  Offsets = {1,2,3,4,7,8,9,15,16,17,31,32,33,63,64,65,127,128,129,130,255,257}
  Steps = {1,2,3,5,7,8,9,16,17,31,32,33,64,65,129,257}
  MaxTime = 100000
  Depth = 30
CONSTRAINT Export
