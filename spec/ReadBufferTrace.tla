--------------------------- MODULE ReadBufferTrace ---------------------------
(* Trace validation for C08.  "step" lines: reader r performed its next atomic operation of  *)
(* Buffer.Add / Free on the real buffer under the deterministic scheduler; TLC performs the   *)
(* same step of ReadBuffer.tla and compares head, tail, token, number of published slots and  *)
(* batch length (div counts segments that leave the specification).  "apply" lines carry the  *)
(* delivered items: each must be an item that was added and must not have been delivered      *)
(* before (NoInvent).  "quiet"/"progress" lines: after the burst has ended, further           *)
(* sequential hits must reach the policy again (NoWedge / progress).                          *)
EXTENDS ReadBuffer, Json, IOUtils

Trace == ndJsonDeserialize(IOEnv.VERIF_TRACE)

VARIABLES l, tid, lost, div, viol, seen, addedT, full, nsteps, nseg, done
tvars == <<vars, l, tid, lost, div, viol, seen, addedT, full, nsteps, nseg, done>>

Ev == Trace[l]
V(k) == IF Cardinality(viol) >= 40 THEN viol ELSE viol \cup {<<"C08", tid, l, k>>}

TraceInit == Init /\ l = 1 /\ tid = "none" /\ lost = FALSE /\ div = 0 /\ viol = {} /\ seen = {} /\ addedT = {}
             /\ full = FALSE /\ nsteps = 0 /\ nseg = 0 /\ done = FALSE

Adv == l <= Len(Trace) /\ l' = l + 1 /\ UNCHANGED done

TrReset ==
  /\ Adv /\ Ev.ev = "reset"
  /\ head' = 0 /\ tail' = 0 /\ slot' = [i \in 0..(Cap - 1) |-> Nil] /\ token' = "home" /\ batch' = <<>>
  /\ pc' = [r \in Readers |-> "idle"] /\ lh' = [r \in Readers |-> 0] /\ lt' = [r \in Readers |-> 0]
  /\ li' = [r \in Readers |-> 0] /\ cnt' = [r \in Readers |-> 0] /\ added' = {} /\ delivered' = <<>>
  /\ tid' = Ev.id /\ lost' = (Ev.adds > 100) /\ seen' = {} /\ full' = FALSE /\ nseg' = nseg + 1
  /\ addedT' = IF Ev.adds > 100 THEN {} ELSE {r * 1000 + k : r \in 1..Ev.readers, k \in 1..Ev.adds}
  /\ UNCHANGED <<div, viol, nsteps>>

Matches(e) == /\ head' = e.head /\ tail' = e.tail /\ (token' = "home") = (e.home = 1)
              /\ Cardinality({i \in 0..(Cap - 1) : slot'[i] # Nil}) = e.nslots /\ Len(batch') = e.blen

\* a gated step: the specification takes the same step and must land in the same state
TrStep ==
  /\ Adv /\ Ev.ev = "step" /\ ~lost /\ Ev.r \in Readers /\ ENABLED Step(Ev.r)
  /\ Step(Ev.r)
  /\ IF Matches(Ev) THEN UNCHANGED <<lost, div>> ELSE lost' = TRUE /\ div' = div + 1
  /\ nsteps' = nsteps + 1
  /\ UNCHANGED <<tid, viol, seen, addedT, full, nseg>>

TrStepLost ==
  /\ Adv /\ Ev.ev = "step" /\ (lost \/ Ev.r \notin Readers \/ ~ENABLED Step(Ev.r))
  /\ lost' = TRUE /\ div' = IF lost THEN div ELSE div + 1
  /\ UNCHANGED <<vars, tid, viol, seen, addedT, full, nsteps, nseg>>

TrAdd ==
  /\ Adv /\ Ev.ev = "add"
  /\ addedT' = addedT \cup {Ev.item}
  /\ UNCHANGED <<vars, tid, lost, div, viol, seen, full, nsteps, nseg>>

ItemsOf(e) == {e.items[i] : i \in DOMAIN e.items}
TrApply ==
  /\ Adv /\ Ev.ev = "apply"
  /\ LET its == ItemsOf(Ev)
         valid == addedT \cup {900000 + k : k \in 0..100}
         dupInBatch == Cardinality(its) # Len(Ev.items)
         v1 == IF its \subseteq valid THEN viol ELSE V("delivered_event_never_added")
         v2 == IF its \cap seen = {} /\ ~dupInBatch THEN v1
               ELSE IF Cardinality(v1) >= 40 THEN v1 ELSE v1 \cup {<<"C08", tid, l, "event_delivered_twice">>}
     IN /\ viol' = v2 /\ seen' = seen \cup its
  /\ UNCHANGED <<vars, tid, lost, div, addedT, full, nsteps, nseg>>

TrQuiet ==
  /\ Adv /\ Ev.ev = "quiet"
  /\ full' = (Ev.home = 1 /\ Ev.tail - Ev.head >= Cap)
  /\ viol' = IF Ev.home = 1 /\ Ev.blen = 0 THEN viol ELSE V("token_or_batch_not_handed_back_at_quiescence")
  /\ UNCHANGED <<vars, tid, lost, div, seen, addedT, nsteps, nseg>>

TrProgress ==
  /\ Adv /\ Ev.ev = "progress"
  /\ viol' = IF Ev.got > 0 THEN viol
             ELSE V(IF full THEN "wedged_full_ring_with_token_home_no_later_hit_recorded" ELSE "no_later_hit_recorded_after_quiescence")
  /\ UNCHANGED <<vars, tid, lost, div, seen, addedT, full, nsteps, nseg>>

TrHang ==
  /\ Adv /\ Ev.ev = "hang"
  /\ viol' = V("reader_did_not_return")
  /\ lost' = TRUE
  /\ UNCHANGED <<vars, tid, div, seen, addedT, full, nsteps, nseg>>

Finish ==
  /\ l = Len(Trace) + 1 /\ ~done
  /\ done' = TRUE
  /\ JsonSerialize(IOEnv.VERIF_RESULT, [lines |-> Len(Trace), consumed |-> l - 1, viol |-> viol, div |-> div,
                                          steps |-> nsteps, traces |-> nseg])
  /\ UNCHANGED <<vars, l, tid, lost, div, viol, seen, addedT, full, nsteps, nseg>>

TraceNext == TrReset \/ TrStep \/ TrStepLost \/ TrAdd \/ TrApply \/ TrQuiet \/ TrProgress \/ TrHang \/ Finish
TraceSpec == TraceInit /\ [][TraceNext]_tvars
=============================================================================
