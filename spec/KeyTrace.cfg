SPECIFICATION TraceSpec
