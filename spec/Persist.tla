------------------------------- MODULE Persist -------------------------------
(* SaveCache / LoadCache of theine-go (internal/store.go Persist / Recover, list.go Persist,  *)
(* persistence.go) at block level.                                                           *)
(* pk is the kind of payload a block really carries (meta / ents / end).                       *)
(*                                                                                         *)
(* A saved cache is [win, pt, pb : Seq(entry), ver, start, up] with entry =                   *)
(* [k, v, cost, dl, fr] (dl = deadline relative to the clock origin, 0 = none; fr = sketch    *)
(* estimate at save time), start = clock origin, up = uptime at save.                         *)
(* Save writes: meta block, window blocks, protected blocks, probation blocks (at most         *)
(* BlockMax entries per block, an empty region writes no block), end block.  Each block =     *)
(* [tp, sumok, ents, ver, start]; tp 1 meta, 2 window, 3 probation, 4 protected, 255 end.     *)
(* The type field is OUTSIDE the checksum (sumok says whether payload and checksum agree).    *)
(*                                                                                         *)
(* Load(blocks, ver, T, now) follows Recover block by block into a cache with window          *)
(* capacity T.capW, protected capacity T.capT and main size T.main; now = time since the      *)
(* adopted clock origin.  RequireMeta = TRUE is the repaired design (the first block must be  *)
(* the metadata block: D12).                                                                 *)
EXTENDS Integers, Sequences, FiniteSets, TLC

CONSTANTS BlockMax, RequireMeta

Min(a, b) == IF a < b THEN a ELSE b

RECURSIVE Chunk(_, _)
Chunk(q, tp) == IF q = <<>> THEN <<>>
                ELSE LET n == Min(BlockMax, Len(q)) IN
                     <<[tp |-> tp, pk |-> "ents", sumok |-> TRUE, ents |-> SubSeq(q, 1, n), ver |-> 0, start |-> 0]>>
                     \o Chunk(SubSeq(q, n + 1, Len(q)), tp)

SaveBlocks(c) ==
  <<[tp |-> 1, pk |-> "meta", sumok |-> TRUE, ents |-> <<>>, ver |-> c.ver, start |-> c.start]>>
  \o Chunk(c.win, 2) \o Chunk(c.pt, 4) \o Chunk(c.pb, 3)
  \o <<[tp |-> 255, pk |-> "end", sumok |-> TRUE, ents |-> <<>>, ver |-> 0, start |-> 0]>>

RECURSIVE SumCost(_)
SumCost(q) == IF q = <<>> THEN 0 ELSE Head(q).cost + SumCost(Tail(q))

Empty == [err |-> "none", win |-> <<>>, pt |-> <<>>, pb |-> <<>>, origin |-> -1, metaSeen |-> FALSE]

\* entries of one block appended to a region while the capacity test (made BEFORE the push) passes
RECURSIVE AddEnts(_, _, _, _, _)
AddEnts(r, ents, tp, T, now) ==
  IF ents = <<>> THEN r
  ELSE LET e == Head(ents)
           expired == e.dl # 0 /\ e.dl < now
           room == CASE tp = 2 -> SumCost(r.win) < T.capW
                     [] tp = 4 -> SumCost(r.pt) < T.capT
                     [] tp = 3 -> SumCost(r.pt) + SumCost(r.pb) < T.main
                     [] OTHER -> FALSE
           r1 == IF expired \/ ~room THEN r
                 ELSE CASE tp = 2 -> [r EXCEPT !.win = Append(@, e)]
                        [] tp = 4 -> [r EXCEPT !.pt = Append(@, e)]
                        [] tp = 3 -> [r EXCEPT !.pb = Append(@, e)]
                        [] OTHER -> r
       IN AddEnts(r1, Tail(ents), tp, T, now)

\* nowOf(origin): time since the adopted origin; before a metadata block is seen the new cache's own clock (0)
RECURSIVE LoadFrom(_, _, _, _, _, _)
LoadFrom(blocks, r, ver, T, wall, first) ==
  IF blocks = <<>> THEN [r EXCEPT !.err = "eof"]              \* stream ended without the end block
  ELSE LET b == Head(blocks) IN
       IF ~b.sumok THEN [r EXCEPT !.err = "checksum"]
       ELSE IF RequireMeta /\ first /\ b.tp # 1 THEN [r EXCEPT !.err = "nometa"]
       ELSE IF b.tp = 255 THEN r
       \* a payload that is not of the kind its (possibly damaged) type field announces does not decode
       ELSE IF (b.tp = 1 /\ b.pk # "meta") \/ (b.tp \in {2, 3, 4} /\ b.pk # "ents") THEN [r EXCEPT !.err = "decode"]
       ELSE IF b.tp = 1
       THEN IF b.ver # ver THEN [r EXCEPT !.err = "version"]
            ELSE LoadFrom(Tail(blocks), [r EXCEPT !.origin = b.start, !.metaSeen = TRUE], ver, T, wall, FALSE)
       ELSE LET now == IF r.origin = -1 THEN 0 ELSE wall - r.origin IN
            LoadFrom(Tail(blocks), AddEnts(r, b.ents, b.tp, T, now), ver, T, wall, FALSE)

Load(blocks, ver, T, wall) == LoadFrom(blocks, Empty, ver, T, wall, TRUE)

-----------------------------------------------------------------------------
(* faults on the block sequence *)
Truncate(bs, n) == SubSeq(bs, 1, n)                                    \* crash during SaveCache
DropB(bs, i) == SubSeq(bs, 1, i - 1) \o SubSeq(bs, i + 1, Len(bs))
DupB(bs, i) == SubSeq(bs, 1, i) \o SubSeq(bs, i, Len(bs))
SwapB(bs, i, j) == [x \in DOMAIN bs |-> IF x = i THEN bs[j] ELSE IF x = j THEN bs[i] ELSE bs[x]]
Retype(bs, i, t) == [bs EXCEPT ![i].tp = t]                             \* header byte damaged, checksum still matches
Corrupt(bs, i) == [bs EXCEPT ![i].sumok = FALSE]                        \* payload or checksum damaged

-----------------------------------------------------------------------------
(* properties *)
All(c) == c.win \o c.pt \o c.pb
ToSet(q) == {q[i] : i \in DOMAIN q}
Alive(q, now) == SelectSeq(q, LAMBDA e : e.dl = 0 \/ e.dl >= now)
IsPrefix(p, q) == Len(p) <= Len(q) /\ SubSeq(q, 1, Len(p)) = p
Loaded(r) == ToSet(r.win) \cup ToSet(r.pt) \cup ToSet(r.pb)

\* C11: same size and version, no fault: every unexpired entry comes back in the same region and order
RoundTripSame(c, r, wall) ==
  LET now == wall - c.start IN
  /\ r.err = "none" /\ r.origin = c.start
  /\ r.win = Alive(c.win, now) /\ r.pt = Alive(c.pt, now) /\ r.pb = Alive(c.pb, now)

\* C11: smaller target: per region a prefix (most recently used end) of the unexpired entries, total within the new size
RoundTripSmaller(c, r, T, wall) ==
  LET now == wall - c.start IN
  /\ r.err = "none"
  /\ IsPrefix(r.win, Alive(c.win, now)) /\ IsPrefix(r.pt, Alive(c.pt, now)) /\ IsPrefix(r.pb, Alive(c.pb, now))
  /\ SumCost(r.win) + SumCost(r.pt) + SumCost(r.pb) <= T.capW + T.main

\* C12: a damaged stream gives an error, or loads only saved entries with their saved values and
\* deadlines under the SAVED clock origin (never a longer life)
FaultSafe(c, r) ==
  r.err # "none" \/
  ( /\ Loaded(r) \subseteq ToSet(All(c))
    /\ (Loaded(r) # {} /\ \E e \in Loaded(r) : e.dl # 0) => r.origin = c.start )

\* C12: another version number is refused before anything is loaded
VersionRefused(r) == r.err # "none" /\ Loaded(r) = {}
=============================================================================
