SPECIFICATION MCSpec
CONSTANTS
  Cap = 4
  N = 4
  SignedCmp = TRUE
  MaxOps = 5
INVARIANTS InvStructure InvBounds InvWithinCap InvEvicted
