---------------------------- MODULE SingleFlight ----------------------------
(* The single-flight group of theine-go (internal/singleflight.go) with pooled call records,   *)
(* at the granularity of the verif hook points of Group.Do / doCall:                           *)
(*   Enter      g.mu section of Do: join an in-flight call (dups+1) or register a new one      *)
(*              (record from the pool, dups+1, wg.Add, m[key] := record)                       *)
(*   Load       the leader runs fn: outcome ok / err / panic / goexit                          *)
(*   Finish     doCall's deferred g.mu section: wg.Done and removal of m[key] - atomically     *)
(*   LeaderRet  Do's deferred dups-1 (record back to the pool when it reaches 0)               *)
(*   Wake       a follower after wg.Wait: reads val/err; on panic/goexit it propagates WITHOUT *)
(*              decrementing dups (the record is then never pooled again)                      *)
EXTENDS Integers, Sequences, FiniteSets, TLC

CONSTANTS Callers, Keys, Recs, MaxCalls, Outcomes

VARIABLES m,        \* [Keys -> Recs \cup {0}]   in-flight table
          rec,      \* [Recs -> [dups, done, val, err, gen]]
          pool,     \* free records
          pc, key, mine, calls, res,   \* per caller: pc, key, record, calls made, last result
          running,  \* ghost: [Keys -> number of loader invocations in progress]
          loads,    \* ghost: loader invocations started, per key
          nextVal, bad

vars == <<m, rec, pool, pc, key, mine, calls, res, running, loads, nextVal, bad>>

NoRec == [dups |-> 0, done |-> TRUE, val |-> 0, err |-> "none", gen |-> 0]
NoRes == [val |-> 0, err |-> "none", gen |-> 0]

Init ==
  /\ m = [k \in Keys |-> 0] /\ rec = [r \in Recs |-> NoRec] /\ pool = Recs
  /\ pc = [c \in Callers |-> "idle"] /\ key = [c \in Callers |-> CHOOSE k \in Keys : TRUE]
  /\ mine = [c \in Callers |-> 0] /\ calls = [c \in Callers |-> 0] /\ res = [c \in Callers |-> NoRes]
  /\ running = [k \in Keys |-> 0] /\ loads = [k \in Keys |-> 0] /\ nextVal = 1 /\ bad = {}

\* g.mu.Lock() ... g.mu.Unlock() of Do (one critical section)
Enter(c, k) ==
  /\ pc[c] = "idle" /\ calls[c] < MaxCalls
  /\ key' = [key EXCEPT ![c] = k]
  /\ IF m[k] # 0
     THEN /\ rec' = [rec EXCEPT ![m[k]].dups = @ + 1]
          /\ mine' = [mine EXCEPT ![c] = m[k]]
          /\ pc' = [pc EXCEPT ![c] = "joined"]
          /\ res' = [res EXCEPT ![c] = [NoRes EXCEPT !.gen = rec[m[k]].gen]]
          /\ bad' = IF rec[m[k]].done THEN bad \cup {"joined_a_finished_call"} ELSE bad
          /\ UNCHANGED <<m, pool, nextVal>>
     ELSE LET r == CHOOSE x \in pool : \A y \in pool : x <= y IN   \* sync.Pool hands out any free record; the lowest one re-uses records as early as possible
          /\ pool # {}
          /\ pool' = pool \ {r}
          /\ bad' = IF rec[r].dups # 0 THEN bad \cup {"record_reused_while_in_use"} ELSE bad
          /\ rec' = [rec EXCEPT ![r] = [@ EXCEPT !.dups = 1, !.done = FALSE, !.gen = nextVal]]
          /\ nextVal' = nextVal + 1
          /\ m' = [m EXCEPT ![k] = r]
          /\ mine' = [mine EXCEPT ![c] = r]
          /\ pc' = [pc EXCEPT ![c] = "leader"]
          /\ UNCHANGED res
  /\ UNCHANGED <<calls, running, loads>>

LoadStart(c) ==
  /\ pc[c] = "leader"
  /\ running' = [running EXCEPT ![key[c]] = @ + 1]
  /\ loads' = [loads EXCEPT ![key[c]] = @ + 1]
  /\ pc' = [pc EXCEPT ![c] = "loading"]
  /\ UNCHANGED <<m, rec, pool, key, mine, calls, res, nextVal, bad>>

LoadEnd(c, o) ==
  /\ pc[c] = "loading"
  /\ running' = [running EXCEPT ![key[c]] = @ - 1]
  /\ rec' = [rec EXCEPT ![mine[c]].val = IF o = "ok" THEN rec[mine[c]].gen ELSE @, ![mine[c]].err = o]
  /\ pc' = [pc EXCEPT ![c] = "finish"]
  /\ UNCHANGED <<m, pool, key, mine, calls, res, loads, nextVal, bad>>

\* deferred section of doCall under g.mu: wake the waiters and drop the table entry in one step
Finish(c) ==
  /\ pc[c] = "finish"
  /\ rec' = [rec EXCEPT ![mine[c]].done = TRUE]
  /\ m' = [m EXCEPT ![key[c]] = IF @ = mine[c] THEN 0 ELSE @]
  /\ pc' = [pc EXCEPT ![c] = "leaderret"]
  /\ UNCHANGED <<pool, key, mine, calls, res, running, loads, nextVal, bad>>

PutIfLast(r, n) == IF n = 0 THEN pool \cup {r} ELSE pool

LeaderRet(c) ==
  /\ pc[c] = "leaderret"
  /\ LET r == mine[c] IN
     /\ res' = [res EXCEPT ![c] = [val |-> rec[r].val, err |-> rec[r].err, gen |-> rec[r].gen]]
     /\ rec' = [rec EXCEPT ![r].dups = @ - 1]
     /\ pool' = PutIfLast(r, rec[r].dups - 1)
  /\ pc' = [pc EXCEPT ![c] = "idle"] /\ calls' = [calls EXCEPT ![c] = @ + 1]
  /\ UNCHANGED <<m, key, mine, running, loads, nextVal, bad>>

Wake(c) ==
  /\ pc[c] = "joined" /\ rec[mine[c]].done
  /\ LET r == mine[c] IN
     /\ bad' = IF rec[r].gen # res[c].gen THEN bad \cup {"follower_got_result_of_another_invocation"} ELSE bad
     /\ res' = [res EXCEPT ![c] = [val |-> rec[r].val, err |-> rec[r].err, gen |-> rec[r].gen]]
     /\ IF rec[r].err \in {"panic", "goexit"}
        THEN UNCHANGED <<rec, pool>>
        ELSE /\ rec' = [rec EXCEPT ![r].dups = @ - 1]
             /\ pool' = PutIfLast(r, rec[r].dups - 1)
  /\ pc' = [pc EXCEPT ![c] = "idle"] /\ calls' = [calls EXCEPT ![c] = @ + 1]
  /\ UNCHANGED <<m, key, mine, running, loads, nextVal>>

Finished == (\A c \in Callers : pc[c] = "idle" /\ calls[c] = MaxCalls) /\ UNCHANGED vars

Next == \/ \E c \in Callers, k \in Keys : Enter(c, k)
        \/ \E c \in Callers : LoadStart(c) \/ Finish(c) \/ LeaderRet(c) \/ Wake(c)
        \/ \E c \in Callers, o \in Outcomes : LoadEnd(c, o)
        \/ Finished
Spec == Init /\ [][Next]_vars

-----------------------------------------------------------------------------
\* at any moment at most one loader invocation runs per key
OneLoader == \A k \in Keys : running[k] <= 1
\* a table entry always denotes a call that has not finished: failures are not kept
TableLive == \A k \in Keys : m[k] # 0 => ~rec[m[k]].done
NoBad == bad = {}
\* a record in the pool is not referenced any more
PoolFree == \A r \in pool : rec[r].dups = 0 /\ \A k \in Keys : m[k] # r
=============================================================================
