------------------------------- MODULE KeyMap -------------------------------
(* C18 at design level: keys, an ARBITRARY hash function (constant Hash, TLC checks every      *)
(* function from keys to hash values, hence every collision pattern), shards chosen by hash,   *)
(* one map per shard keyed by the FULL key, a doorkeeper and a sketch keyed by hash, in-flight *)
(* loads keyed by GroupKey(k) - the full key in the code (ByHash = FALSE); ByHash = TRUE is    *)
(* the variant that keys the single-flight group by the hash.                                  *)
(* Refinement target: abs[k] - a plain map from keys to values.                                *)
EXTENDS Integers, FiniteSets, TLC
CONSTANTS Keys, HashVals, NShards, MaxVal, ByHash
VARIABLES hash, shard, abs, flight, nextV, bad
vars == <<hash, shard, abs, flight, nextV, bad>>

ShardOf(k) == hash[k] % NShards
GroupKey(k) == IF ByHash THEN <<"h", hash[k]>> ELSE <<"k", k>>

Init == /\ hash \in [Keys -> HashVals]                 \* every hash function
        /\ shard = [s \in 0..(NShards - 1) |-> [k \in Keys |-> 0]]
        /\ abs = [k \in Keys |-> 0] /\ flight = {} /\ nextV = 1 /\ bad = {}

Set(k) == /\ nextV <= MaxVal
          /\ shard' = [shard EXCEPT ![ShardOf(k)][k] = nextV] /\ abs' = [abs EXCEPT ![k] = nextV] /\ nextV' = nextV + 1
          /\ UNCHANGED <<hash, flight, bad>>
Delete(k) == /\ shard' = [shard EXCEPT ![ShardOf(k)][k] = 0] /\ abs' = [abs EXCEPT ![k] = 0] /\ UNCHANGED <<hash, flight, nextV, bad>>
Get(k) == /\ bad' = IF shard[ShardOf(k)][k] = abs[k] THEN bad ELSE bad \cup {"get_differs_from_map"}
          /\ UNCHANGED <<hash, shard, abs, flight, nextV>>
\* loading Get on a miss: join an in-flight load with the same group key, or start one
LoadStart(k) == /\ shard[ShardOf(k)][k] = 0 /\ nextV <= MaxVal
                /\ IF \E f \in flight : f.g = GroupKey(k)
                   THEN LET f == CHOOSE x \in flight : x.g = GroupKey(k) IN
                        /\ bad' = (IF f.k = k THEN bad ELSE bad \cup {"joined_the_load_of_another_key"})
                        /\ UNCHANGED <<flight, nextV>>
                   ELSE /\ flight' = flight \cup {[g |-> GroupKey(k), k |-> k, v |-> nextV]}
                        /\ nextV' = nextV + 1
                        /\ UNCHANGED bad
                /\ UNCHANGED <<hash, shard, abs>>
LoadEnd(f) == /\ f \in flight /\ flight' = flight \ {f}
              /\ shard' = [shard EXCEPT ![ShardOf(f.k)][f.k] = f.v] /\ abs' = [abs EXCEPT ![f.k] = f.v]
              /\ UNCHANGED <<hash, nextV, bad>>
Next == \/ \E k \in Keys : Set(k) \/ Delete(k) \/ Get(k) \/ LoadStart(k)
        \/ \E f \in flight : LoadEnd(f)
Spec == Init /\ [][Next]_vars
\* the key-to-shard mapping is stable and a key lives in its own shard only
Stable == [][hash' = hash]_vars
NoAlias == bad = {} /\ \A s \in 0..(NShards - 1), k \in Keys : shard[s][k] # 0 => s = ShardOf(k) /\ shard[s][k] = abs[k]
=============================================================================
