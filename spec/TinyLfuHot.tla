----------------------------- MODULE TinyLfuHot -----------------------------
(* C09, retention: TinyLfu.tla with an EXACT frequency function (reads and insertions counted, *)
(* capped at 15, halved on aging) under the workload of the property: a hot set no larger than *)
(* half the cache keeps being read while any number of one-off keys is inserted.  admit() is   *)
(* the rule of the code: the candidate replaces the victim only if its frequency is higher.    *)
EXTENDS TinyLfu
CONSTANTS Hot, MaxOps
VARIABLES st, freq, readSince, n
hvars == <<st, freq, readSince, n>>

Tracked == {e \in Ids : Region(st, e) # "none"}
Choices == [1..N -> BOOLEAN]
Inc(f, e) == [f EXCEPT ![e] = IF @ < 15 THEN @ + 1 ELSE @]

\* every admit decision of the step agrees with the frequencies
Consistent(s, f) == \A i \in DOMAIN s.adm : s.adm[i][3] = (f[s.adm[i][1]] > f[s.adm[i][2]])

RECURSIVE Warm(_, _, _)
Warm(s, f, hs) == IF hs = {} THEN <<s, f>>
                  ELSE LET h == CHOOSE x \in hs : TRUE
                           s1 == PSet(s, h, 1, [i \in 1..N |-> FALSE])
                           s2 == PAccess(PAccess(s1, h), h)
                       IN Warm(s2, [f EXCEPT ![h] = 3], hs \ {h})

HInit == /\ LET r == Warm(Init0, [e \in Ids |-> 0], Hot) IN st = r[1] /\ freq = r[2]
         /\ readSince = {} /\ n = 0

ReadHot(h) ==
  /\ h \in Hot /\ h \in Tracked
  /\ freq' = Inc(freq, h) /\ st' = PAccess(st, h) /\ readSince' = readSince \cup {h}

InsertOneOff(e) ==
  /\ e \in Ids \ Hot /\ e \notin Tracked
  /\ LET f1 == Inc([freq EXCEPT ![e] = 0], e) IN       \* a key never seen before
     /\ freq' = f1
     /\ \E ch \in Choices : LET r == PSet(st, e, 1, ch) IN Consistent(r, f1) /\ st' = r
  /\ UNCHANGED readSince

\* sketch aging; between two agings every hot key has been read (the workload keeps reading the hot set)
Age == /\ readSince = Hot
       /\ freq' = [e \in Ids |-> freq[e] \div 2] /\ readSince' = {} /\ UNCHANGED st

HNext == /\ n < MaxOps /\ n' = n + 1
         /\ \/ \E h \in Hot : ReadHot(h)
            \/ \E e \in Ids : InsertOneOff(e)
            \/ Age
HSpec == HInit /\ [][HNext]_hvars

HotRetained == Hot \subseteq Tracked
HotStructure == Structure(st) /\ WithinCap(st)
=============================================================================
