SPECIFICATION Spec
CONSTANTS
  Readers = {r1, r2}
  Writers = {w1}
  NS = 2
  Recheck = TRUE
  Revoke = TRUE
  Rollback = TRUE
INVARIANTS Mutex Counts BiasOff
CHECK_DEADLOCK TRUE
