----------------------------- MODULE ReadBuffer -----------------------------
(* The lossy striped read buffer of theine-go (internal/buffer.go), one stripe, at the       *)
(* granularity of individual atomic operations.                                             *)
(*                                                                                         *)
(* Add(item):  h := head.Load(); t := tail.Load(); size := t-h                               *)
(*             size >= Cap            -> give up (full)          [Fixed: drain instead]      *)
(*             CAS(tail, t, t+1) fails -> give up (contention)                                *)
(*             slot[t mod Cap] := item (lazy publish)                                        *)
(*             size = Cap-1           -> CAS(token, home, out) fails -> give up               *)
(*                                       else drain every slot (published ones are moved to   *)
(*                                       the batch and cleared), head := h+Cap, return batch  *)
(* caller:     applies the batch under the policy lock (arbitrary delay), then Free():        *)
(*             batch := <<>>; token := home                                                   *)
(*                                                                                         *)
(* Fixed = FALSE is the code as pinned: only the reader that fills the last slot drains; if  *)
(* the token is still out at that moment the ring stays full for ever (D8).                  *)
(* Fixed = TRUE: a reader that finds the ring full (or fills it) tries to drain: it takes    *)
(* the token, re-reads head and tail under the token, drains only if the ring is full.       *)
EXTENDS Integers, Sequences, FiniteSets, TLC

CONSTANTS Cap, Readers, MaxAdds, Fixed

VARIABLES head, tail, slot, token, batch,
          pc, lh, lt, li, cnt,       \* per reader: program counter, loaded head / tail, drain index, adds done
          added, delivered           \* ghost: items handed to Add / items delivered in batches (sequence, to see duplicates)

vars == <<head, tail, slot, token, batch, pc, lh, lt, li, cnt, added, delivered>>

Nil == <<0, 0>>
Item(r) == <<r, cnt[r] + 1>>         \* distinct per call

Init ==
  /\ head = 0 /\ tail = 0 /\ slot = [i \in 0..(Cap - 1) |-> Nil] /\ token = "home" /\ batch = <<>>
  /\ pc = [r \in Readers |-> "idle"] /\ lh = [r \in Readers |-> 0] /\ lt = [r \in Readers |-> 0]
  /\ li = [r \in Readers |-> 0] /\ cnt = [r \in Readers |-> 0]
  /\ added = {} /\ delivered = <<>>

Goto(r, l) == pc' = [pc EXCEPT ![r] = l]
Done(r) == /\ pc' = [pc EXCEPT ![r] = "idle"] /\ cnt' = [cnt EXCEPT ![r] = @ + 1]

\* head.Load()
LoadHead(r) ==
  /\ pc[r] = "idle" /\ cnt[r] < MaxAdds
  /\ lh' = [lh EXCEPT ![r] = head]
  /\ added' = added \cup {Item(r)}
  /\ Goto(r, "loadtail")
  /\ UNCHANGED <<head, tail, slot, token, batch, lt, li, cnt, delivered>>

\* tail.Load(); full test
LoadTail(r) ==
  /\ pc[r] = "loadtail"
  /\ lt' = [lt EXCEPT ![r] = tail]
  /\ IF tail - lh[r] >= Cap
     THEN IF Fixed THEN Goto(r, "token") /\ UNCHANGED cnt ELSE Done(r)
     ELSE Goto(r, "castail") /\ UNCHANGED cnt
  /\ UNCHANGED <<head, tail, slot, token, batch, lh, li, added, delivered>>

\* tail.CompareAndSwap(t, t+1)
CasTail(r) ==
  /\ pc[r] = "castail"
  /\ IF tail = lt[r]
     THEN /\ tail' = tail + 1 /\ Goto(r, "publish") /\ UNCHANGED cnt
     ELSE /\ Done(r) /\ UNCHANGED tail
  /\ UNCHANGED <<head, slot, token, batch, lh, lt, li, added, delivered>>

\* atomic.StorePointer(&buffer[t & mask], item)
Publish(r) ==
  /\ pc[r] = "publish"
  /\ slot' = [slot EXCEPT ![lt[r] % Cap] = Item(r)]
  /\ IF lt[r] - lh[r] = Cap - 1 THEN Goto(r, "token") /\ UNCHANGED cnt ELSE Done(r)
  /\ UNCHANGED <<head, tail, token, batch, lh, lt, li, added, delivered>>

\* CompareAndSwapPointer(&returned, policyBuffers, nil)
CasToken(r) ==
  /\ pc[r] = "token"
  /\ IF token = "home"
     THEN /\ token' = "out"
          /\ IF Fixed
             THEN \* re-read head and tail while holding the token (head only moves under the token)
                  IF tail - head >= Cap
                  THEN /\ lh' = [lh EXCEPT ![r] = head] /\ li' = [li EXCEPT ![r] = 0] /\ Goto(r, "drain") /\ UNCHANGED cnt
                  ELSE /\ Goto(r, "giveback") /\ UNCHANGED <<lh, li, cnt>>
             ELSE /\ li' = [li EXCEPT ![r] = 0] /\ Goto(r, "drain") /\ UNCHANGED <<lh, cnt>>
     ELSE /\ Done(r) /\ UNCHANGED <<token, lh, li>>
  /\ UNCHANGED <<head, tail, slot, batch, lt, added, delivered>>

\* Fixed only: ring was not full after all, hand the token back
GiveBack(r) ==
  /\ pc[r] = "giveback"
  /\ token' = "home" /\ Done(r)
  /\ UNCHANGED <<head, tail, slot, batch, lh, lt, li, added, delivered>>

\* one iteration of the drain loop: load slot, move it to the batch if published, clear it
DrainSlot(r) ==
  /\ pc[r] = "drain" /\ li[r] < Cap
  /\ LET idx == (lh[r] + li[r]) % Cap IN
     IF slot[idx] # Nil
     THEN /\ batch' = Append(batch, slot[idx]) /\ slot' = [slot EXCEPT ![idx] = Nil]
     ELSE UNCHANGED <<batch, slot>>
  /\ li' = [li EXCEPT ![r] = @ + 1]
  /\ UNCHANGED <<head, tail, token, pc, lh, lt, cnt, added, delivered>>

\* b.head.Store(h + Cap); return the batch
StoreHead(r) ==
  /\ pc[r] = "drain" /\ li[r] = Cap
  /\ head' = lh[r] + Cap
  /\ Goto(r, "hold")
  /\ UNCHANGED <<tail, slot, token, batch, lh, lt, li, cnt, added, delivered>>

\* the caller applies the batch (drainRead under the policy lock) ...
Apply(r) ==
  /\ pc[r] = "hold"
  /\ delivered' = delivered \o batch
  /\ batch' = <<>>                      \* Free() clears the batch first, then (next step) stores the token
  /\ Goto(r, "free")
  /\ UNCHANGED <<head, tail, slot, token, lh, lt, li, cnt, added>>

\* ... and hands the token back: Free()
Free(r) ==
  /\ pc[r] = "free"
  /\ token' = "home" /\ Done(r)
  /\ UNCHANGED <<head, tail, slot, batch, lh, lt, li, added, delivered>>

Step(r) == \/ LoadHead(r) \/ LoadTail(r) \/ CasTail(r) \/ Publish(r) \/ CasToken(r) \/ GiveBack(r)
           \/ DrainSlot(r) \/ StoreHead(r) \/ Apply(r) \/ Free(r)

AllIdle == \A r \in Readers : pc[r] = "idle"
Finished == (\A r \in Readers : pc[r] = "idle" /\ cnt[r] = MaxAdds) /\ UNCHANGED vars

Next == (\E r \in Readers : Step(r)) \/ Finished
Spec == Init /\ [][Next]_vars

-----------------------------------------------------------------------------
ToSet(s) == {s[i] : i \in DOMAIN s}

TypeOK == /\ head <= tail /\ tail - head <= Cap /\ head % Cap = 0
          /\ token \in {"home", "out"}

\* every delivered event corresponds to one real Add and is delivered once
NoInvent == /\ ToSet(delivered) \subseteq added
            /\ \A i, j \in DOMAIN delivered : i # j => delivered[i] # delivered[j]
            /\ \A i \in DOMAIN batch : batch[i] \in added

\* no sequence of concurrent reads leaves the stripe unable to record later hits:
\* when nobody is inside Add/Free the ring has room (or, Fixed, the next Add drains it)
NoWedge == (AllIdle /\ token = "home") => (tail - head < Cap \/ Fixed)

\* the token is out exactly while somebody drains / holds the batch
TokenOwner == (token = "out") = (\E r \in Readers : pc[r] \in {"drain", "hold", "free", "giveback"})
OneOwner == Cardinality({r \in Readers : pc[r] \in {"drain", "hold", "free", "giveback"}}) <= 1

=============================================================================
