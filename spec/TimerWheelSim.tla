--------------------------- MODULE TimerWheelSim ---------------------------
(* Behaviour generator: random walks of TimerWheelMC with a history variable, written    *)
(* as NDJSON (one file per behaviour) for replay into the real TimerWheel.               *)
EXTENDS TimerWheelMC, Json, IOUtils

CONSTANT Depth
VARIABLE hist

SimInit == Init /\ hist = <<>>

SimNext ==
  \/ \E e \in Entries, o \in Offsets :
       /\ Schedule(e, nanos + o)
       /\ hist' = Append(hist, [op |-> "schedule", e |-> e, d |-> nanos + o,
                                lvl |-> pos'[e][1], slot |-> pos'[e][2]])
  \/ \E e \in Entries :
       /\ Deschedule(e)
       /\ hist' = Append(hist, [op |-> "deschedule", e |-> e])
  \/ \E s \in Steps :
       /\ nanos + s <= MaxTime
       /\ Advance(nanos + s)
       /\ hist' = Append(hist, [op |-> "advance", now |-> nanos + s, removed |-> removed'])

SimSpec == SimInit /\ [][SimNext]_<<vars, hist>>

Export ==
  IF Len(hist) = Depth
  THEN ndJsonSerialize(IOEnv.VERIF_SIMDIR \o "/sim_" \o ToString(TLCGet("stats").traces) \o ".ndjson", hist)
  ELSE TRUE
=============================================================================
