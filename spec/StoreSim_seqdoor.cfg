SPECIFICATION SimSpec
CONSTANTS
  Keys = {1, 2}
  Clients = {1}
  MaxSize = 2
  Costs = {1, 2, 3}
  TTLs = {0, 1, 2}
  QCap = 2
  BatchMax = 2
  MaxEnt = 9
  MaxTime = 5
  OpsPerClient = 7
  Allowed <- AllowSeq
  WithTicker = TRUE
  Thresh = 30
  AdvSteps = {1}
  StallOnly = FALSE
  Door = TRUE
  FixD2 = TRUE
  FixD6 = TRUE
  FixD7 = TRUE
  FixD16 = TRUE
  FixD10a = TRUE
  FixD20 = TRUE
  Depth = 90
  Gates <- GatesAll
  Shift = 30
  Start = 3
  MaxTicks = 3
CONSTRAINT Export
