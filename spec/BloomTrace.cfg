SPECIFICATION TraceSpec
