SPECIFICATION Spec
CONSTANTS
  Readers = {r1, r2}
  Writers = {w1, w2}
  NS = 2
  Recheck = TRUE
  Revoke = FALSE
  Rollback = TRUE
INVARIANTS Mutex Counts BiasOff
CHECK_DEADLOCK TRUE
