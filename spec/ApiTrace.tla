------------------------------ MODULE ApiTrace ------------------------------
(* Sequential specification of the public API (cache.go / builder.go) as a trace observer.      *)
(* One client, every call followed by Wait().  cur[k] = what key k holds according to the        *)
(* completed calls (value, cost); notifications remove what they name.                            *)
(*   C01  a Get that yields a value yields cur[k].v                                               *)
(*   C06  a Get misses only for a key that holds nothing; Set is false only for a cost above      *)
(*        MaxSize or a doorkeeper's first sighting; EVICTED only when the live cost exceeded       *)
(*        MaxSize during the step                                                                 *)
(*   C02  after Wait the live cost is within MaxSize                                              *)
(*   C05  a notification names a key/value that was held; a Delete of a held key is notified       *)
(*        exactly once as REMOVED before the next call                                            *)
(*   C13  the loader runs only for a key that holds nothing, and its value is what Get returns     *)
(*   C16  Len, EstimatedSize, Range and Stats report the map                                       *)
(*   C10  after Close: Get misses (loading: the closed error), Len is 0                            *)
(*   C04  no EXPIRED notification (deadlines are an hour away or absent)                           *)
EXTENDS Integers, Sequences, FiniteSets, TLC, Json, IOUtils
Trace == ndJsonDeserialize(IOEnv.VERIF_TRACE)
VARIABLES l, st, done
KeyDom == 0..16
NoCur == [has |-> FALSE, v |-> 0, cost |-> 0]
NoCall == [op |-> "none", k |-> 0, v |-> 0, cost |-> 0]
Init0 == [tid |-> "none", line |-> 0, maxsize |-> 0, loading |-> 0, door |-> 0, cur |-> [k \in KeyDom |-> NoCur],
          call |-> NoCall, prev |-> NoCur, delv |-> NoCur, owed |-> FALSE, peak |-> 0, loaded |-> FALSE, loadv |-> 0, loadc |-> 0,
          hits |-> 0, misses |-> 0, closed |-> FALSE, seen |-> <<>>, viol |-> {}, traces |-> 0, calls |-> 0]
V(s, prop, kind) == IF Cardinality({x \in s.viol : x[1] = prop /\ x[4] = kind}) >= 25 THEN s ELSE [s EXCEPT !.viol = @ \cup {<<prop, s.tid, s.line, kind>>}]
Vif(s, c, prop, kind) == IF c THEN V(s, prop, kind) ELSE s
RECURSIVE SumC(_, _)
SumC(f, S) == IF S = {} THEN 0 ELSE LET x == CHOOSE y \in S : TRUE IN f[x].cost + SumC(f, S \ {x})
Live(s) == {k \in KeyDom : s.cur[k].has}
Total(s) == SumC(s.cur, Live(s))

DoReset(s, e) == [Init0 EXCEPT !.tid = e.id, !.maxsize = e.maxsize, !.loading = e.loading, !.door = e.door,
                               !.viol = s.viol, !.traces = s.traces + 1, !.calls = s.calls]

\* a Delete owes one REMOVED notification before the next call
Owes(s) == Vif(s, s.owed, "C05", "api_delete_of_held_key_not_notified")

DoCall(s0, e) ==
  LET s == [Owes(s0) EXCEPT !.owed = FALSE, !.call = [op |-> e.op, k |-> e.k, v |-> e.v, cost |-> e.cost], !.loaded = FALSE, !.calls = s0.calls + 1]
      k == e.k
  IN CASE e.op = "set" /\ ~s.closed ->
            \* optimistic: stored unless the result says otherwise (a cost above MaxSize never touches the key)
            IF e.cost > s.maxsize THEN [s EXCEPT !.prev = s.cur[k], !.peak = Total(s)]
            ELSE LET s1 == [s EXCEPT !.prev = s.cur[k], !.cur = [s.cur EXCEPT ![k] = [has |-> TRUE, v |-> e.v, cost |-> e.cost]]]
                 IN [s1 EXCEPT !.peak = Total(s1)]
       [] e.op = "del" /\ ~s.closed ->
            [s EXCEPT !.delv = s.cur[k], !.owed = s.cur[k].has, !.cur = [s.cur EXCEPT ![k] = NoCur], !.peak = Total(s)]
       [] OTHER -> [s EXCEPT !.peak = Total(s)]

DoLoad(s, e) ==
  LET s1 == Vif(s, s.cur[e.k].has, "C13", "api_loader_called_for_resident_key")
      s2 == [s1 EXCEPT !.loaded = TRUE, !.loadv = e.v, !.loadc = e.cost]
  IN IF e.cost > s.maxsize THEN s2
     ELSE LET s3 == [s2 EXCEPT !.cur = [s2.cur EXCEPT ![e.k] = [has |-> TRUE, v |-> e.v, cost |-> e.cost]]]
          IN [s3 EXCEPT !.peak = IF Total(s3) > s3.peak THEN Total(s3) ELSE s3.peak]

DoNotify(s, e) ==
  LET c == s.cur[e.k]
      isdel == e.reason = 0 /\ s.owed /\ s.call.op = "del" /\ s.call.k = e.k
  IN IF isdel
     THEN Vif([s EXCEPT !.owed = FALSE], s.delv.v # e.v, "C05", "api_removed_notification_with_value_not_held")
     ELSE LET a == Vif(s, ~(c.has /\ c.v = e.v), "C05", "api_notification_for_value_not_held")
              b == Vif(a, e.reason = 2, "C04", "api_expired_notification_before_any_deadline")
              d == Vif(b, e.reason = 0, "C05", "api_removed_notification_without_delete")
              f == Vif(d, e.reason = 1 /\ s.peak <= s.maxsize, "C06", "api_evicted_while_cost_within_maxsize")
          IN IF c.has /\ c.v = e.v THEN [f EXCEPT !.cur = [f.cur EXCEPT ![e.k] = NoCur]] ELSE f

DoRet(s, e) ==
  LET c == s.call  k == c.k  cu == s.cur[k] IN
  CASE s.closed ->
         IF e.op = "get"
         THEN Vif(Vif(s, e.ok = 1, "C10", "api_get_served_after_close"), s.loading = 1 /\ e.n # 2, "C10", "api_loading_get_after_close_not_closed_error")
         ELSE IF e.op = "len" THEN Vif(s, e.n # 0, "C16", "api_len_nonzero_after_close") ELSE s
    [] e.op = "set" ->
         IF e.ok = 1 THEN Vif(s, c.cost > s.maxsize, "C06", "api_set_true_for_cost_above_maxsize")
         ELSE LET big == c.cost > s.maxsize
                  rej == s.door = 1 /\ ~s.prev.has
                  s1 == Vif(s, ~big /\ ~rej, "C06", "api_set_false_without_reason")
              IN IF big THEN s1 ELSE [s1 EXCEPT !.cur = [s.cur EXCEPT ![k] = s.prev]]
    [] e.op = "get" ->
         LET s1 == IF e.ok = 1 /\ ~s.loaded THEN [s EXCEPT !.hits = @ + 1] ELSE [s EXCEPT !.misses = @ + 1]
             a == Vif(s1, e.ok = 1 /\ ~s.loaded /\ ~(cu.has /\ cu.v = e.v), "C01", "api_get_returns_value_not_latest")
             b == Vif(a, e.ok = 1 /\ s.loaded /\ e.v # s.loadv, "C13", "api_loading_get_returns_other_than_loaded")
             d == Vif(b, e.ok = 0 /\ cu.has /\ s.loading = 0, "C06", "api_get_misses_stored_value")
             f == Vif(d, s.loading = 1 /\ e.ok = 0, "C13", "api_loading_get_failed_although_loader_succeeds")
         IN f
    [] e.op = "len" -> Vif(s, e.n # Cardinality(Live(s)), "C16", "api_len_differs_from_held_keys")
    [] e.op = "est" -> Vif(s, e.n # Total(s), "C16", "api_estimated_size_differs_from_held_cost")
    [] e.op = "range" ->
         LET got == {<<s.seen[i][1], s.seen[i][2]>> : i \in DOMAIN s.seen}
             want == {<<x, s.cur[x].v>> : x \in Live(s)}
         IN Vif(Vif(s, got # want, "C16", "api_range_differs_from_held_entries"), Len(s.seen) # Cardinality(got), "C16", "api_range_visits_key_twice")
    [] e.op = "stats" -> Vif(s, e.v # s.hits \/ e.n # s.misses, "C16", "api_stats_differ_from_calls")
    [] e.op = "close" -> [s EXCEPT !.closed = TRUE, !.cur = [x \in KeyDom |-> NoCur]]
    [] OTHER -> s

DoWaited(s) == Vif(s, Total(s) > s.maxsize, "C02", "api_held_cost_above_maxsize_after_wait")

Upd(s, e) ==
  CASE e.ev = "areset" -> DoReset(s, e)
    [] e.ev = "acall" -> DoCall(s, e)
    [] e.ev = "aload" -> DoLoad(s, e)
    [] e.ev = "anotify" -> DoNotify(s, e)
    [] e.ev = "arange" -> [s EXCEPT !.seen = e.seen]
    [] e.ev = "aret" -> DoRet(s, e)
    [] e.ev = "awaited" -> DoWaited(s)
    [] e.ev = "aend" -> Owes(s)
    \* doorkeeper with thousands of keys (filters cleared and rebuilt): a key the cache holds is never refused
    [] e.ev = "adoor" -> Vif(Vif([s EXCEPT !.tid = e.id, !.traces = s.traces + 1], e.refused > 0, "C06", "api_set_false_for_key_the_cache_holds"),
                             e.undeleted > 0, "C01", "api_deleted_key_still_served_by_doorkeeper_cache")
    \* one write that displaces hundreds of entries (counts only): when Wait has returned the evictions have
    \* happened and have been reported
    [] e.ev = "abulk" ->
         LET s0 == [s EXCEPT !.tid = e.id, !.traces = s.traces + 1]
             a == Vif(s0, e.est > e.maxsize, "C02", "api_estimated_size_above_maxsize_after_wait")
             b == Vif(a, e.est > e.maxsize, "C20", "wait_returned_before_the_evictions_of_a_large_displacement_had_happened")
             c == Vif(b, e.est # e.storedcost - e.notifiedcost, "C20", "wait_returned_before_the_removal_notifications_of_a_large_displacement_were_delivered")
             d == Vif(c, e.len # e.stored - e.notified, "C05", "api_entries_stored_differ_from_resident_plus_notified_after_large_displacement")
         IN Vif(d, e.est # e.storedcost - e.notifiedcost, "C16", "api_estimated_size_differs_from_stored_minus_notified_cost")
    [] OTHER -> s

TraceInit == l = 1 /\ st = Init0 /\ done = FALSE
Step == l <= Len(Trace) /\ st' = Upd([st EXCEPT !.line = l], Trace[l]) /\ l' = l + 1 /\ UNCHANGED done
Finish == /\ l = Len(Trace) + 1 /\ ~done /\ done' = TRUE
          /\ JsonSerialize(IOEnv.VERIF_RESULT, [lines |-> Len(Trace), consumed |-> l - 1, viol |-> st.viol, traces |-> st.traces, calls |-> st.calls])
          /\ UNCHANGED <<l, st>>
TraceSpec == TraceInit /\ [][Step \/ Finish]_<<l, st, done>>
=============================================================================
