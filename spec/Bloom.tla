-------------------------------- MODULE Bloom --------------------------------
(* The doorkeeper's Bloom filter (internal/bf/bf.go) and the way a shard uses it               *)
(* (internal/store.go setShardWithoutLock): a new key is admitted only if Insert reports that    *)
(* all K positions of its hash were already set; after more than Capacity first sightings the    *)
(* filter is cleared.  C06 allows a Set to return false "when the doorkeeper sees the key for    *)
(* the first time": a key sighted since the last clearing must therefore be admitted - the        *)
(* filter has no false negatives.                                                              *)
(*   Pos(h, i) = (h1 + i * h2) mod M, i = 0..K-1, h = <<h1, h2>> the two halves of the hash       *)
(*   Insert(h)   returns whether all K positions were set, and sets them                        *)
(*   Exist(h)    returns whether all K positions are set                                        *)
(*   Reset       clears every bit                                                               *)
(*   Grow(c)     EnsureCapacity with a larger capacity: new M, K and an empty filter             *)
(* Shard level: Sight(h) is the doorkeeper step of a Set on a key that is not in the map.        *)
EXTENDS Integers, FiniteSets, TLC

CONSTANTS Ms,          \* filter sizes (powers of two) that Grow may choose
          Ks,          \* numbers of hash functions
          Hs,          \* hash halves
          Cap          \* first sightings after which the shard clears the filter

VARIABLES bits, m, k, since, counter, last
vars == <<bits, m, k, since, counter, last>>

Hashes == Hs \X Hs
Pos(h, i) == (h[1] + i * h[2]) % m
PosSet(h) == {Pos(h, i) : i \in 0..(k - 1)}

Init == /\ m \in Ms /\ k \in Ks /\ bits = {} /\ since = {} /\ counter = 0 /\ last = [op |-> "init", r |-> FALSE]

Insert(h) == /\ last' = [op |-> "insert", r |-> PosSet(h) \subseteq bits]
             /\ bits' = bits \cup PosSet(h) /\ since' = since \cup {h}
             /\ UNCHANGED <<m, k, counter>>
Exist(h) == /\ last' = [op |-> "exist", r |-> PosSet(h) \subseteq bits]
            /\ UNCHANGED <<bits, m, k, since, counter>>
Reset == /\ bits' = {} /\ since' = {} /\ last' = [op |-> "reset", r |-> FALSE] /\ UNCHANGED <<m, k, counter>>
Grow(m2, k2) == /\ m2 > m /\ m' = m2 /\ k' = k2 /\ bits' = {} /\ since' = {}
                /\ last' = [op |-> "grow", r |-> FALSE] /\ UNCHANGED counter

\* the shard's use: clear after more than Cap first sightings, then Insert; a miss counts as a first sighting
Sight(h) ==
  LET clear == counter > Cap
      b0 == IF clear THEN {} ELSE bits
      s0 == IF clear THEN {} ELSE since
      hit == PosSet(h) \subseteq b0
  IN /\ bits' = b0 \cup PosSet(h) /\ since' = s0 \cup {h}
     /\ counter' = (IF clear THEN 0 ELSE counter) + (IF hit THEN 0 ELSE 1)
     /\ last' = [op |-> "sight", r |-> hit]
     /\ UNCHANGED <<m, k>>

Next == \/ \E h \in Hashes : Insert(h) \/ Exist(h) \/ Sight(h)
        \/ Reset \/ \E m2 \in Ms, k2 \in Ks : Grow(m2, k2)
Spec == Init /\ [][Next]_vars

\* no false negatives: every hash inserted since the last clearing is found
NoFalseNegative == \A h \in since : PosSet(h) \subseteq bits
\* the filter only holds positions of inserted hashes
NoStrayBit == bits \subseteq UNION {PosSet(h) : h \in since}
\* a sighted key is admitted the next time (the C06 clause), unless the filter was cleared in between
SecondSighting == [][\A h \in Hashes : (h \in since /\ Sight(h) /\ counter <= Cap) => last'.r]_vars
TypeOK == bits \subseteq 0..(m - 1) /\ counter \in 0..(Cap + 1)
=============================================================================
