SPECIFICATION Spec
CONSTANTS
  Cap = 2
  Readers = {1, 2}
  MaxAdds = 3
  Fixed = TRUE
INVARIANTS TypeOK NoInvent TokenOwner OneOwner NoWedge
