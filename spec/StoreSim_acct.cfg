SPECIFICATION SimSpec
CONSTANTS
  Keys = {1, 2, 3}
  Clients = {1, 2, 3}
  MaxSize = 3
  Costs = {1, 2, 3}
  TTLs = {0, 0, 1, 2}
  QCap = 2
  BatchMax = 2
  MaxEnt = 9
  MaxTime = 4
  OpsPerClient = 3
  Allowed <- AllowAcct
  WithTicker = TRUE
  Thresh = 30
  AdvSteps = {1}
  StallOnly = FALSE
  Door = FALSE
  FixD2 = TRUE
  FixD6 = TRUE
  FixD7 = TRUE
  FixD16 = TRUE
  FixD10a = TRUE
  FixD20 = TRUE
  Depth = 60
  Gates <- GatesAll
  Shift = 30
  Start = 3
  MaxTicks = 3
CONSTRAINT Export
