------------------------------ MODULE KeyTrace ------------------------------
(* C18.  KeyMap is the specification: the cache is a map from key VALUES (classes) to values,  *)
(* whatever the hash function does - the hash is an arbitrary function of the class that may   *)
(* collide.  KeyMapMC checks that the design (shard chosen by hash, per-shard map keyed by the  *)
(* full key, in-flight loads keyed by the full key) refines it for EVERY hash function.        *)
(* This module validates traces of the key-family driver against the same map: a Get through   *)
(* any key of a class returns the last value set through any key of that class, never another  *)
(* class's value; Len and Range agree with the number of classes present.                      *)
EXTENDS Integers, Sequences, FiniteSets, TLC, Json, IOUtils
Trace == ndJsonDeserialize(IOEnv.VERIF_TRACE)
VARIABLES l, ty, padded, m, viol, nget, nseg, done
vars == <<l, ty, padded, m, viol, nget, nseg, done>>
Ev == Trace[l]
Get(f, x, d) == IF x \in DOMAIN f THEN f[x] ELSE d
Put(f, x, v) == IF x \in DOMAIN f THEN [f EXCEPT ![x] = v] ELSE f @@ (x :> v)
V(k) == IF Cardinality(viol) >= 40 THEN viol ELSE viol \cup {<<"C18", ty, l, k>>}
\* keys whose equality is not byte-wise before Go 1.24 (struct padding): outside the claimed class
Kind(k) == IF padded THEN k \o "_struct_with_padding_bytes" ELSE k

TraceInit == l = 1 /\ ty = "none" /\ padded = FALSE /\ m = <<>> /\ viol = {} /\ nget = 0 /\ nseg = 0 /\ done = FALSE
Step ==
  /\ l <= Len(Trace) /\ l' = l + 1 /\ UNCHANGED done
  /\ CASE Ev.ev = "kreset" -> ty' = Ev.ty /\ padded' = Ev.padded /\ m' = <<>> /\ nseg' = nseg + 1 /\ UNCHANGED <<viol, nget>>
       [] Ev.ev = "kset" -> m' = Put(m, Ev.class, Ev.v) /\ UNCHANGED <<ty, padded, viol, nget, nseg>>
       [] Ev.ev = "kdel" -> m' = Put(m, Ev.class, 0) /\ UNCHANGED <<ty, padded, viol, nget, nseg>>
       [] Ev.ev = "kget" ->
            LET want == Get(m, Ev.class, 0) IN
            /\ viol' = IF want # 0 /\ Ev.found = 0 THEN V(Kind("equal_key_does_not_find_the_entry"))
                       ELSE IF Ev.found = 1 /\ want = 0 THEN V(Kind("absent_key_returns_a_value"))
                       ELSE IF Ev.found = 1 /\ Ev.v # want THEN V(Kind("key_returns_value_of_another_key_or_stale")) ELSE viol
            /\ nget' = nget + 1 /\ UNCHANGED <<ty, padded, m, nseg>>
       [] Ev.ev = "klen" ->
            LET present == Cardinality({c \in DOMAIN m : m[c] # 0}) IN
            /\ viol' = IF Ev.len = present /\ Ev.range = present THEN viol ELSE V(Kind("equal_keys_stored_as_several_entries"))
            /\ UNCHANGED <<ty, padded, m, nget, nseg>>
       [] Ev.ev = "kload" ->
            /\ viol' = IF Ev.err = 0 /\ Ev.v = Ev.want THEN viol ELSE V("load_returns_value_of_a_colliding_key")
            /\ nget' = nget + 1 /\ UNCHANGED <<ty, padded, m, nseg>>
       [] Ev.ev = "khang" -> viol' = V("call_did_not_return") /\ UNCHANGED <<ty, padded, m, nget, nseg>>
       [] OTHER -> UNCHANGED <<ty, padded, m, viol, nget, nseg>>
Finish == /\ l = Len(Trace) + 1 /\ ~done /\ done' = TRUE
          /\ JsonSerialize(IOEnv.VERIF_RESULT, [lines |-> Len(Trace), consumed |-> l - 1, viol |-> viol, traces |-> nseg, gets |-> nget])
          /\ UNCHANGED <<l, ty, padded, m, viol, nget, nseg>>
TraceSpec == TraceInit /\ [][Step \/ Finish]_vars
=============================================================================
