SPECIFICATION Spec
CONSTANTS
  Ms = {4, 8}
  Ks = {2, 3}
  Hs = {0, 1, 3}
  Cap = 2
INVARIANTS NoFalseNegative NoStrayBit TypeOK
PROPERTIES SecondSighting
