------------------------------ MODULE SketchSim ------------------------------
(* Behaviour generator for the sketch: operation sequences over abstract keys; the        *)
(* harness maps each abstract key to a concrete 64-bit hash.                              *)
EXTENDS Integers, Sequences, TLC, Json, IOUtils
CONSTANTS Depth, NKeys
VARIABLE hist
SimInit == hist = <<>>
SimNext ==
  \/ \E k \in 1..NKeys : hist' = Append(hist, [op |-> "add", key |-> k])
  \/ \E k \in 1..NKeys, n \in {1, 2, 7, 8, 15, 16} : hist' = Append(hist, [op |-> "addn", key |-> k, n |-> n])
  \/ \E k \in 1..NKeys : hist' = Append(hist, [op |-> "est", key |-> k])
  \/ \E s \in {1, 16, 17, 64, 65, 300, 1000, 5000} : hist' = Append(hist, [op |-> "ensure", size |-> s])
  \/ \E d \in 1..3 : hist' = Append(hist, [op |-> "nearsample", d |-> d])
SimSpec == SimInit /\ [][SimNext]_hist
Export ==
  IF Len(hist) = Depth
  THEN ndJsonSerialize(IOEnv.VERIF_SIMDIR \o "/sim_" \o ToString(TLCGet("stats").traces) \o ".ndjson", hist)
  ELSE TRUE
=============================================================================
