------------------------------ MODULE PersistMC ------------------------------
(* Exhaustive configuration of Persist.tla: all small saved caches x block-level faults x      *)
(* target sizes x elapsed times; the properties are evaluated on every combination.           *)
EXTENDS Persist, SequencesExt

Pool == << [k |-> 1, v |-> 11, cost |-> 1, dl |-> 0, fr |-> 2],
           [k |-> 2, v |-> 12, cost |-> 2, dl |-> 5, fr |-> 1],
           [k |-> 3, v |-> 13, cost |-> 1, dl |-> 20, fr |-> 0],
           [k |-> 4, v |-> 14, cost |-> 1, dl |-> 0, fr |-> 3] >>
Idx == 1..Len(Pool)

\* all duplicate-free sequences over a set of indices, up to length 2
Seqs(S) == {<<>>} \cup {<<a>> : a \in S} \cup {p \in S \X S : p[1] # p[2]}
Ents(q) == [i \in DOMAIN q |-> Pool[q[i]]]

Caches == { [win |-> Ents(w), pt |-> Ents(t), pb |-> Ents(b), ver |-> 7, start |-> 100, up |-> 3]
            : w \in Seqs(Idx), t \in Seqs(Idx), b \in Seqs(Idx) } 
Disjoint(c) == \A i, j \in DOMAIN All(c) : i # j => All(c)[i].k # All(c)[j].k

Targets == { [capW |-> 1, capT |-> 2, main |-> 3], [capW |-> 2, capT |-> 3, main |-> 4], [capW |-> 1, capT |-> 0, main |-> 1] }
Walls == {100, 103, 107, 130}        \* wall-clock time of the load (origin 100): before / after deadlines

Faulted(bs) ==
  {bs} \cup {Truncate(bs, n) : n \in 0..(Len(bs) - 1)}
  \cup {DropB(bs, i) : i \in DOMAIN bs} \cup {DupB(bs, i) : i \in DOMAIN bs}
  \cup {SwapB(bs, i, j) : i \in DOMAIN bs, j \in DOMAIN bs}
  \cup {Retype(bs, i, t) : i \in DOMAIN bs, t \in {1, 2, 3, 4, 255, 9}}
  \cup {Corrupt(bs, i) : i \in DOMAIN bs}

VARIABLES c, fb, T, wall, ver
mvars == <<c, fb, T, wall, ver>>
MCInit == /\ c \in {x \in Caches : Disjoint(x)} /\ T \in Targets /\ wall \in Walls /\ ver \in {7, 8}
          /\ fb \in Faulted(SaveBlocks(c))
MCNext == UNCHANGED mvars
MCSpec == MCInit /\ [][MCNext]_mvars

R == Load(fb, ver, T, wall)
Clean == fb = SaveBlocks(c)
Uniform == \A i \in DOMAIN All(c) : All(c)[i].cost = 1

\* C11 (the same-size clause needs the saved window to fit the target's default window: D11a otherwise)
InvRoundTrip == (Clean /\ ver = 7 /\ SumCost(c.win) <= T.capW /\ SumCost(c.pt) <= T.capT
                 /\ SumCost(c.pt) + SumCost(c.pb) <= T.main) => RoundTripSame(c, R, wall)
\* (mixed costs may overshoot a smaller target by one entry per region: D11b)
InvSmaller == (Clean /\ ver = 7 /\ Uniform) => RoundTripSmaller(c, R, T, wall)
InvPrefix == (Clean /\ ver = 7) => (R.err = "none" /\ IsPrefix(R.win, Alive(c.win, wall - c.start)))
\* C12
InvTruncated == (\E n \in 0..(Len(SaveBlocks(c)) - 1) : fb = Truncate(SaveBlocks(c), n)) => R.err # "none"
InvFaultSafe == ver = 7 => FaultSafe(c, R)
InvVersion == ver = 8 => VersionRefused(R)
=============================================================================
