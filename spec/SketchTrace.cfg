SPECIFICATION TraceSpec
