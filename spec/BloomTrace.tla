----------------------------- MODULE BloomTrace -----------------------------
(* Trace validation for the doorkeeper's Bloom filter (C06).  "op" lines: one call on the real  *)
(* bf.Bloomfilter with the two hash halves reduced modulo the filter size (a, b), its result r,   *)
(* the geometry afterwards (m, k) and the number of set bits (pop).  TLC performs the same call   *)
(* with the position formula of Bloom.tla, compares result and population (div counts histories  *)
(* that leave the specification) and reports a false negative: a hash inserted since the last     *)
(* clearing that the filter reports absent - the doorkeeper would refuse a key it has seen.       *)
EXTENDS Integers, Sequences, FiniteSets, TLC, Json, IOUtils

Trace == ndJsonDeserialize(IOEnv.VERIF_TRACE)
VARIABLES l, tid, bits, m, k, since, lost, div, viol, nops, nseg, done
vars == <<l, tid, bits, m, k, since, lost, div, viol, nops, nseg, done>>
Ev == Trace[l]
V(kind) == IF Cardinality(viol) >= 40 THEN viol ELSE viol \cup {<<"C06", tid, l, kind>>}

PosSet(a, b, mm, kk) == {(a + i * b) % mm : i \in 0..(kk - 1)}

TraceInit == l = 1 /\ tid = "none" /\ bits = {} /\ m = 1 /\ k = 0 /\ since = {} /\ lost = FALSE /\ div = 0 /\ viol = {}
             /\ nops = 0 /\ nseg = 0 /\ done = FALSE
Adv == l <= Len(Trace) /\ l' = l + 1 /\ UNCHANGED done

TrReset == /\ Adv /\ Ev.ev = "reset"
           /\ tid' = Ev.id /\ bits' = {} /\ m' = Ev.m /\ k' = Ev.k /\ since' = {} /\ lost' = FALSE /\ nseg' = nseg + 1
           /\ UNCHANGED <<div, viol, nops>>

TrOp ==
  /\ Adv /\ Ev.ev = "op"
  /\ LET ps == PosSet(Ev.a, Ev.b, m, k)
         want == ps \subseteq bits
         nb == CASE Ev.op = "insert" -> bits \cup ps
                 [] Ev.op = "exist" -> bits
                 [] Ev.op = "reset" -> {}
                 [] Ev.op = "ensure" -> IF Ev.b = 1 THEN {} ELSE bits
                 [] OTHER -> bits
         ns == CASE Ev.op = "insert" -> since \cup {Ev.h}
                 [] Ev.op = "reset" -> {}
                 [] Ev.op = "ensure" -> IF Ev.b = 1 THEN {} ELSE since
                 [] OTHER -> since
         isq == Ev.op \in {"insert", "exist"}
         \* verdict: independent of the bit-level model - a hash inserted since the last clearing is reported absent
         fneg == isq /\ Ev.h \in since /\ Ev.r = 0
         bad == ~lost /\ ((isq /\ (Ev.r = 1) # want) \/ Ev.pop # Cardinality(nb) \/ (Ev.op # "ensure" /\ (Ev.m # m \/ Ev.k # k)))
     IN /\ bits' = nb /\ since' = ns /\ m' = Ev.m /\ k' = Ev.k
        /\ viol' = IF fneg THEN V("inserted_hash_reported_absent_before_any_clearing") ELSE viol
        /\ lost' = (lost \/ bad) /\ div' = IF bad THEN div + 1 ELSE div
        /\ nops' = nops + 1
  /\ UNCHANGED <<tid, nseg>>

TrOther == /\ Adv /\ Ev.ev \notin {"reset", "op"} /\ UNCHANGED <<tid, bits, m, k, since, lost, div, viol, nops, nseg>>

Finish == /\ l = Len(Trace) + 1 /\ ~done /\ done' = TRUE
          /\ JsonSerialize(IOEnv.VERIF_RESULT, [lines |-> Len(Trace), consumed |-> l - 1, viol |-> viol, div |-> div, ops |-> nops, traces |-> nseg])
          /\ UNCHANGED <<l, tid, bits, m, k, since, lost, div, viol, nops, nseg>>
TraceSpec == TraceInit /\ [][TrReset \/ TrOp \/ TrOther \/ Finish]_vars
=============================================================================
