---------------------------- MODULE RBMutexTrace ----------------------------
(* Trace validation for the shard lock (C01 / C19).  "step" lines: process p was released from *)
(* the hook `at` of internal/rbmutex.go (or from the harness gates idle / cs), ran until its    *)
(* next hook `next`, and the lock then showed rbias and the slot counters logged.  TLC takes    *)
(* the action of RBMutex.tla that belongs to `at` and must reach a state with the same rbias,   *)
(* the same counters and p at the place `next` stands for; a line that no successor matches      *)
(* ends conformance for that history (div, reported as a note).                                  *)
(* The verdict comes from the harness's own view of who is inside the lock (csr readers, csw     *)
(* writers between acquire and release): csw <= 1 and csw = 1 => csr = 0 on every line.          *)
EXTENDS RBMutex, Sequences, Json, IOUtils

Trace == ndJsonDeserialize(IOEnv.VERIF_TRACE)

VARIABLES l, tid, ns, lost, div, divat, viol, nsteps, nseg, done
tvars == <<vars, l, tid, ns, lost, div, divat, viol, nsteps, nseg, done>>

Ev == Trace[l]
V(k) == IF Cardinality(viol) >= 40 THEN viol ELSE viol \cup {<<"C19", tid, l, k>>}

TraceInit == Init /\ l = 1 /\ tid = "none" /\ ns = NS /\ lost = FALSE /\ div = 0 /\ divat = {} /\ viol = {} /\ nsteps = 0 /\ nseg = 0 /\ done = FALSE

Adv == l <= Len(Trace) /\ l' = l + 1 /\ UNCHANGED done

\* one trace file per number of slots; the configuration sets NS accordingly
TrReset ==
  /\ Adv /\ Ev.ev = "reset"
  /\ rbias' = 1 /\ slots' = [s \in Slots |-> 0] /\ rwR' = 0 /\ rwW' = FALSE /\ inh' = FALSE
  /\ pc' = [p \in Procs |-> "idle"] /\ base' = [p \in Procs |-> 0] /\ idx' = [p \in Procs |-> 0]
  /\ val' = [p \in Procs |-> 0] /\ tok' = [p \in Procs |-> -1]
  /\ tid' = Ev.id /\ ns' = Ev.ns /\ lost' = (Ev.ns # NS) /\ nseg' = nseg + 1
  /\ UNCHANGED <<div, divat, viol, nsteps>>

\* first slot the reader will try: the next LoadSlot line of p (the token's slot is not known before)
RECURSIVE BaseFor(_, _)
BaseFor(p, i) == IF i > Len(Trace) \/ Trace[i].ev # "step" THEN 0
                 ELSE IF Trace[i].p = p
                      THEN (IF Trace[i].at = "LoadSlot" THEN Trace[i].n
                            ELSE IF Trace[i].at \in {"idle", "LoadBias"} THEN BaseFor(p, i + 1) ELSE 0)
                      ELSE BaseFor(p, i + 1)

Place(x) == CASE x \in {"r_bias", "t_bias"} -> "LoadBias" [] x \in {"r_load", "t_load"} -> "LoadSlot"
              [] x \in {"r_cas", "t_cas"} -> "CasSlot" [] x \in {"r_re", "t_re"} -> "Recheck"
              [] x \in {"r_back", "t_back"} -> "Rollback" [] x = "r_slow" -> "SlowRLock" [] x = "t_slow" -> "TryRLock"
              [] x = "s_bias" -> "SlowBias" [] x = "s_set" -> "SlowSet" [] x \in {"rcs", "wcs"} -> "cs"
              [] x \in {"w_bias", "y_bias"} -> "WBias" [] x \in {"w_clear", "y_clear"} -> "WClear"
              [] x = "w_spin" -> "WSpin" [] x = "y_scan" -> "TryScan" [] x = "y_back" -> "TryBack" [] x = "y_unl" -> "TryUnlock"
              [] OTHER -> "idle"

\* rw read-held: "if rbias = 0 and the inhibition period is over, rbias := 1".  Whether the period is over
\* is the code's clock reading, which the trace shows by where the process went: the ghost inh follows
\* it (once seen over it stays over until the next revocation); skipping the store with rbias = 0 is
\* legal only while a revocation has left an inhibition pending.
SlowBiasT(p, e) ==
  /\ pc[p] = "s_bias"
  /\ LET goSet == e.next = "SlowSet" IN
     /\ goSet => rbias = 0
     /\ (~goSet /\ rbias = 0) => inh
     /\ Go(p, IF goSet THEN "s_set" ELSE "rcs")
     /\ inh' = IF goSet THEN FALSE ELSE inh
  /\ tok' = [tok EXCEPT ![p] = -1]
  /\ UNCHANGED <<rbias, slots, rwR, rwW, base, idx, val>>

\* the action that starts at hook `at`
Act(p, e) ==
  CASE e.at = "idle" -> IF e.reader = 1 THEN RBegin(p, e.op = "tryrlock", BaseFor(p, l) % NS) ELSE UNCHANGED vars
    [] e.at = "LoadBias" -> RLoadBias(p)
    [] e.at = "LoadSlot" -> RLoadSlot(p)
    [] e.at = "CasSlot" -> RCas(p)
    [] e.at = "Recheck" -> RRecheck(p)
    [] e.at = "Rollback" -> RBack(p)
    [] e.at = "SlowRLock" -> RSlowLock(p)
    [] e.at = "TryRLock" -> RSlowTry(p)
    [] e.at = "SlowBias" -> SlowBiasT(p, e)
    [] e.at = "SlowSet" -> RSlowSet(p)
    [] e.at = "cs" -> UNCHANGED vars
    [] e.at = "RUnlock" -> RUnlock(p)
    [] e.at = "Lock" -> WLock(p)
    [] e.at = "TryLock" -> WTry(p)
    [] e.at = "WBias" -> WLoadBias(p)
    [] e.at = "WClear" -> WClear(p)
    [] e.at = "WSpin" -> WSpin(p)
    [] e.at = "TryScan" -> WScan(p)
    [] e.at = "TryBack" -> WTryBack(p)
    [] e.at = "TryUnlock" -> WTryUnl(p)
    [] e.at = "Unlock" -> WUnlock(p)
    [] OTHER -> FALSE

\* where the process stands afterwards: its next hook; the harness gates count as follows - "cs" inside,
\* "idle"/"done" outside, and the hooks reached from the harness gates without a lock step in between
After(p, e) ==
  LET x == pc'[p] IN
  CASE e.next \in {"idle", "done"} -> x = "idle"
    [] e.next \in {"Lock", "TryLock"} -> x = "idle"
    [] e.next \in {"RUnlock", "Unlock"} -> x \in {"rcs", "wcs"}
    [] OTHER -> Place(x) = e.next

Matches(p, e) ==
  /\ rbias' = e.rbias
  /\ \A s \in Slots : slots'[s] = (IF s < ns THEN e.slots[s + 1] ELSE 0)
  /\ After(p, e)

Mx(e) == IF e.csw > 1 THEN V("shard_lock_held_by_two_writers")
         ELSE IF e.csw = 1 /\ e.csr > 0 THEN V("shard_lock_held_by_writer_and_reader_together") ELSE viol

Probe == Act(Ev.p, Ev) /\ Matches(Ev.p, Ev)

TrStep ==
  /\ Adv /\ Ev.ev = "step" /\ ~lost /\ Ev.p \in Procs
  /\ Act(Ev.p, Ev) /\ Matches(Ev.p, Ev)
  /\ viol' = Mx(Ev) /\ nsteps' = nsteps + 1
  /\ UNCHANGED <<tid, ns, lost, div, divat, nseg>>

TrStepLost ==
  /\ Adv /\ Ev.ev = "step"
  /\ (lost \/ Ev.p \notin Procs \/ ~ENABLED Probe)
  /\ lost' = TRUE /\ div' = IF lost THEN div ELSE div + 1
  /\ divat' = IF lost \/ Cardinality(divat) >= 20 THEN divat ELSE divat \cup {<<tid, l, Ev.at>>}
  /\ viol' = Mx(Ev)
  /\ UNCHANGED <<vars, tid, ns, nsteps, nseg>>

TrHang ==
  /\ Adv /\ Ev.ev = "hang"
  /\ viol' = V("shard_lock_caller_blocked_" \o Ev.op) /\ lost' = TRUE
  /\ UNCHANGED <<vars, tid, ns, div, divat, nsteps, nseg>>

TrOther ==
  /\ Adv /\ Ev.ev \notin {"reset", "step", "hang"}
  /\ UNCHANGED <<vars, tid, ns, lost, div, divat, viol, nsteps, nseg>>

Finish ==
  /\ l = Len(Trace) + 1 /\ ~done /\ done' = TRUE
  /\ JsonSerialize(IOEnv.VERIF_RESULT, [lines |-> Len(Trace), consumed |-> l - 1, viol |-> viol, div |-> div, divat |-> divat,
                                          steps |-> nsteps, traces |-> nseg])
  /\ UNCHANGED <<vars, l, tid, ns, lost, div, divat, viol, nsteps, nseg>>

TraceNext == TrReset \/ TrStep \/ TrStepLost \/ TrHang \/ TrOther \/ Finish
TraceSpec == TraceInit /\ [][TraceNext]_tvars
=============================================================================
