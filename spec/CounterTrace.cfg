SPECIFICATION TraceSpec
