----------------------------- MODULE StoreTrace -----------------------------
(* Trace validation for the Store family (C01 C02 C03 C04 C05 C06 C10 C16 C20).             *)
(*                                                                                         *)
(* Each line of the trace is one event recorded by the verif hooks of internal/store.go    *)
(* (inside the critical section the hook sits in, so events on one lock are in lock order) *)
(* or by the harness clients (call / ret around every API call, listener notifications,    *)
(* clock advances, white-box snapshots at quiescent points).  The observer state follows   *)
(* what the implementation logged; every check that fails adds <<property, trace id, line, *)
(* kind>> to viol, and validation continues so that the rest of the trace is examined.     *)
(*                                                                                         *)
(* Observer state (record st):                                                             *)
(*   mp[k]      entry id in the shard map (0 = absent)   -- the sequential map of C01      *)
(*   en[e]      per incarnation: key, value, cost, deadline, who removed it (left),        *)
(*              notifications received, upper bound of the cost the policy may count (ub)  *)
(*   pc[p]      pending API call of process p, lin[p] its linearization event              *)
(*   pn[p]      notification owed by process p (set when it removed a slot)                *)
(*   sent/appl  bags of write events whose call returned / that the policy has applied     *)
(*   need[p]    bag a Wait of p must see applied when it returns (C20)                     *)
EXTENDS Integers, Sequences, FiniteSets, TLC, Json, IOUtils

Trace == ndJsonDeserialize(IOEnv.VERIF_TRACE)

VARIABLES l, st, done

KeyDom == 0..64
CapU == 536870912      \* times are capped at 2^29 units by the harness (saturated deadlines)
Tick1 == 1024          \* finest wheel tick (2^30 ns) in coarse units (2^20 ns)

Get(f, x, d) == IF x \in DOMAIN f THEN f[x] ELSE d
Put(f, x, v) == IF x \in DOMAIN f THEN [f EXCEPT ![x] = v] ELSE f @@ (x :> v)
BagAdd(b, x) == Put(b, x, Get(b, x, 0) + 1)
ToSet(s) == {s[i] : i \in DOMAIN s}
Max(a, b) == IF a > b THEN a ELSE b

NoCall == [op |-> "none", k |-> 0, v |-> 0, cost |-> 0, ttl |-> 0, t |-> 0, ac |-> FALSE]
NoLin  == [kind |-> "none", found |-> 0, v |-> 0, e |-> 0, cost |-> 0, ttl |-> 0, t |-> 0]
NoEn   == [k |-> 0, v |-> 0, cost |-> 0, dl |-> 0, left |-> "none", notified |-> 0, ub |-> 0, gone |-> FALSE, dead |-> FALSE, st |-> 0, sf |-> 0]

Init0 == [tid |-> "none", line |-> 0, maxsize |-> 0, pool |-> 0, door |-> 0, loading |-> 0, mode |-> "none",
          mp |-> [k \in KeyDom |-> 0], en |-> <<>>, pc |-> <<>>, lin |-> <<>>, pn |-> <<>>,
          now |-> 0, closed |-> FALSE, closedDone |-> FALSE, press |-> 0,
          sent |-> <<>>, appl |-> <<>>, psent |-> <<>>, owes |-> <<>>, need |-> <<>>,
          gets |-> 0, hits |-> 0, lp |-> [k \in KeyDom |-> "none"], lrun |-> [k \in KeyDom |-> 0], lfail |-> <<>>, lcur |-> [k \in KeyDom |-> {}], lmine |-> <<>>, rv |-> <<>>, rdirty |-> <<>>, pl |-> <<>>,
          lastTick |-> -1, stalled |-> FALSE, heldAcc |-> 0, thresh |-> 28610, tick |-> 1024, nsnap |-> 0, nnotif |-> 0, nevents |-> 0, viol |-> {}, traces |-> 0, hangs |-> 0,
          stuck |-> 0, skipped |-> 0, una |-> {}, qcap |-> 1024, batch |-> 128, sight |-> <<>>, tickSeq |-> 0, fired |-> -1, nfired |-> 0, lc |-> <<>>, lrunv |-> [k \in KeyDom |-> {}], pend |-> {}]

V(s, prop, kind) ==
  IF Cardinality({x \in s.viol : x[1] = prop /\ x[4] = kind}) >= 25 THEN s      \* (per property and kind: a flood of one kind must not hide another)
  ELSE [s EXCEPT !.viol = @ \cup {<<prop, s.tid, s.line, kind>>}]

Vif(s, cond, prop, kind) == IF cond THEN V(s, prop, kind) ELSE s

En(s, e) == Get(s.en, e, NoEn)
Pc(s, p) == Get(s.pc, p, NoCall)
Lin(s, p) == Get(s.lin, p, NoLin)

\* a process with a notification still owed does something else: the notification is missing
Owed(s, p) ==
  LET o == Get(s.pn, p, <<0, "none">>) IN
  IF o[1] # 0 THEN [V(s, "C05", "missing_notification") EXCEPT !.pn = Put(s.pn, p, <<0, "none">>)] ELSE s

\* expected deadline established by a write of process p (C03; D4 = no TTL over an expired entry)
ExpDl(s, c, olddl) ==
  IF c.ttl > 0 THEN (IF c.ttl >= CapU - c.t THEN CapU ELSE c.t + c.ttl)
  ELSE olddl

\* C01/C13: the loader's result is stored atomically with the load (shard write lock held throughout):
\* nobody else may write the key between the load event and the store by the loading process
Intervene(s, p, k) ==
  IF s.lp[k] # "none" /\ s.lp[k] # p THEN V(s, "C01", "write_between_load_and_store_of_loaded_value") ELSE s
ClearLp(s, p, k) == IF s.lp[k] = p THEN [s EXCEPT !.lp = [s.lp EXCEPT ![k] = "none"]] ELSE s

DoReset(s, e) ==
  [Init0 EXCEPT !.tid = e.id, !.maxsize = e.maxsize, !.pool = e.pool, !.door = e.door, !.loading = e.loading,
                !.qcap = IF e.qcap > 0 THEN e.qcap ELSE 1024, !.batch = IF "batch" \in DOMAIN e /\ e.batch > 0 THEN e.batch ELSE 128,
                !.mode = e.mode, !.now = e.t, !.lastTick = e.t, !.thresh = e.thresh, !.tick = e.tick, !.viol = s.viol, !.traces = s.traces + 1, !.hangs = s.hangs,
                !.nsnap = s.nsnap, !.nnotif = s.nnotif, !.nevents = s.nevents, !.stuck = s.stuck, !.skipped = s.skipped]

DoCall(s, e) ==
  LET c == [op |-> e.op, k |-> e.k, v |-> e.v, cost |-> e.cost, ttl |-> e.ttl, t |-> e.t, ac |-> s.closedDone]
      busy == \E q \in DOMAIN s.pc : q # e.p /\ s.pc[q].op # "none"
      s1 == [s EXCEPT !.pc = Put(s.pc, e.p, c), !.lin = Put(s.lin, e.p, NoLin), !.owes = Put(s.owes, e.p, <<>>),
                      !.rdirty = [q \in DOMAIN s.rdirty |-> TRUE]]
  IN CASE e.op = "wait" -> [s1 EXCEPT !.need = Put(s.need, e.p, s.sent)]
       [] e.op = "range" -> [s1 EXCEPT !.rv = Put(s.rv, e.p, <<>>), !.rdirty = Put(s1.rdirty, e.p, busy)]
       [] e.op = "len" -> [s1 EXCEPT !.rdirty = Put(s1.rdirty, e.p, busy)]
       \* Stats is compared with the calls made only if nobody else was inside a call when it began and nobody
       \* began one before it returned (a whole Get may fit between the counter read and the logged return)
       [] e.op = "stats" -> [s1 EXCEPT !.rdirty = Put(s1.rdirty, e.p, busy)]
       \* a caller may join a load that is already in flight (until its leader returns)
       [] e.op = "lget" -> [s1 EXCEPT !.pl = Put(s.pl, e.p, s.lcur[e.k]), !.lfail = Put(s.lfail, e.p, FALSE),
                                       !.lc = Put(s.lc, e.p, s.lrunv[e.k] \cup (IF s.mp[e.k] # 0 /\ ~(En(s, s.mp[e.k]).dl # 0 /\ En(s, s.mp[e.k]).dl <= e.t)
                                                                             THEN {En(s, s.mp[e.k]).v} ELSE {}))]
       [] e.op = "close" -> [s1 EXCEPT !.closed = TRUE]
       [] OTHER -> s1

\* --- linearization events ------------------------------------------------------------
DoSetNew(s, e) ==
  LET c == Pc(s, e.p)
      s1 == Vif(ClearLp(Intervene(s, e.p, e.k), e.p, e.k), s.mp[e.k] # 0, "C01", "new_entry_over_present_key")
      s2a == Vif(s1, e.cost > s.maxsize, "C06", "admitted_cost_above_maxsize")
      s2 == Vif(s2a, e.cost > s.maxsize /\ c.op = "lget", "C13", "load_above_maxsize_admitted_unlike_set")
      isset == c.op = "set"
      s3 == Vif(s2, isset /\ (c.k # e.k \/ c.v # e.v \/ c.cost # e.cost), "C01", "stored_other_than_written")
      s4a == Vif(s3, isset /\ e.dl # ExpDl(s, c, 0), "C03", "deadline_not_call_time_plus_ttl")
      li == Lin(s, e.p)
      isload == c.op = "lget" /\ li.kind = "load"
      \* C13: a successful load is admitted exactly as a Set with the cost and TTL the loader returned
      s4b == Vif(s4a, c.op = "lget" /\ Get(s.lfail, e.p, FALSE), "C13", "result_of_failed_load_stored")
      s4 == Vif(s4b, isload /\ (e.v # li.v \/ e.cost # li.cost \/ e.dl # ExpDl(s, [ttl |-> li.ttl, t |-> li.t], 0)),
                "C13", "load_not_admitted_as_set_with_loader_cost_and_ttl")
      \* the observer keeps the deadline the call establishes (call time + TTL), not the one the code stored,
      \* so that a wrong deadline also shows up as a miss on a live entry / an early expiry
      xdl == IF isset THEN ExpDl(s, c, 0) ELSE IF isload THEN ExpDl(s, [ttl |-> li.ttl, t |-> li.t], 0) ELSE e.dl
      s4d == Vif(s4, isset /\ c.ttl = 0 /\ e.dl # 0, "C06", "new_entry_without_ttl_has_a_deadline")
      \* C02 (in flight): entries in the map the policy has not been told about sit in the write queue, in the
      \* maintenance goroutine's batch, or with a writer that is waiting to send
      una1 == s.una \cup {e.e}
      s4c == Vif(s4d, s.pool = 0 /\ ~s.closed /\ Cardinality(una1) > s.qcap + s.batch + Cardinality(DOMAIN s.pc) + 1,
                 "C02", "unaccounted_resident_entries_exceed_queue_plus_writers")
  IN [s4c EXCEPT !.mp = [s.mp EXCEPT ![e.k] = e.e], !.una = una1,
                !.en = Put(s.en, e.e, [NoEn EXCEPT !.k = e.k, !.v = e.v, !.cost = e.cost, !.dl = xdl, !.ub = e.cost]),
                !.owes = Put(s.owes, e.p, <<e.e, "NEW", e.cost>>),
                !.press = s.press + e.cost,
                !.lin = Put(s.lin, e.p, [NoLin EXCEPT !.kind = "setnew", !.found = 0, !.v = e.v, !.e = e.e])]

DoSetUpd(s, e) ==
  LET c == Pc(s, e.p)
      o == En(s, e.e)
      s1 == Vif(ClearLp(Intervene(s, e.p, e.k), e.p, e.k), s.mp[e.k] # e.e, "C01", "update_of_entry_not_in_map")
      s2 == Vif(s1, e.cost > s.maxsize, "C06", "admitted_cost_above_maxsize")
      isset == c.op = "set"
      s3 == Vif(s2, isset /\ (c.k # e.k \/ c.v # e.v \/ c.cost # e.cost), "C01", "stored_other_than_written")
      expired == o.dl # 0 /\ o.dl <= c.t
      s4 == Vif(s3, isset /\ e.dl # ExpDl(s, c, o.dl), "C03", "deadline_not_call_time_plus_ttl")
      \* C06: a Set over a value that has already expired is governed by the new call's TTL (none if none)
      s5 == Vif(s4, isset /\ c.ttl = 0 /\ expired /\ e.dl # 0, "C06", "set_without_ttl_over_expired_keeps_old_deadline")
      li == Lin(s, e.p)
      isload == c.op = "lget" /\ li.kind = "load"
      s5z == Vif(s5, c.op = "lget" /\ Get(s.lfail, e.p, FALSE), "C13", "result_of_failed_load_stored")
      s5a == Vif(s5z, isload /\ (e.v # li.v \/ e.cost # li.cost \/ e.dl # ExpDl(s, [ttl |-> li.ttl, t |-> li.t], o.dl)),
                 "C13", "load_not_admitted_as_set_with_loader_cost_and_ttl")
      s5b == Vif(s5a, isload /\ li.ttl = 0 /\ o.dl # 0 /\ o.dl <= li.t /\ e.dl # 0, "C06", "set_without_ttl_over_expired_keeps_old_deadline")
      s6 == Vif(s5b, e.old # o.cost, "C02", "old_cost_reported_differs")
      inc == IF e.cost > o.cost THEN e.cost - o.cost ELSE 0
      \* (for a Set without TTL over an expired entry the code's choice - keep the old deadline - is followed, see D4)
      xdl == IF isset /\ c.ttl > 0 THEN ExpDl(s, c, o.dl) ELSE IF isload /\ li.ttl > 0 THEN ExpDl(s, [ttl |-> li.ttl, t |-> li.t], o.dl) ELSE e.dl
  IN [s6 EXCEPT !.en = Put(s.en, e.e, [o EXCEPT !.v = e.v, !.cost = e.cost, !.dl = xdl, !.ub = o.ub + inc]),
                !.owes = Put(s.owes, e.p, <<e.e, "UPDATE", e.cost - e.old>>),
                !.press = s.press + inc,
                !.lin = Put(s.lin, e.p, [NoLin EXCEPT !.kind = "setupd", !.found = 0, !.v = e.v, !.e = e.e])]

DoSetOther(s, e) ==
  LET s1 == Vif(s, e.ev = "setrej" /\ s.door = 0, "C06", "rejected_without_doorkeeper")
      s2 == Vif(s1, e.ev = "setclosed" /\ ~s.closed, "C10", "closed_path_on_open_cache")
      \* C06: the doorkeeper may refuse a key only the first time it sees it.  sight[sh] = keys this shard's
      \* filter has been shown since it was last cleared (cnt = 1: the first sighting counted after a clearing)
      old == IF e.ev = "setrej" /\ e.cnt > 1 THEN Get(s.sight, e.sh, {}) ELSE {}
      s3 == Vif(s2, e.ev = "setrej" /\ e.k \in old, "C06", "doorkeeper_rejected_key_it_had_already_seen")
      s4 == IF e.ev = "setrej" THEN [s3 EXCEPT !.sight = Put(s.sight, e.sh, old \cup {e.k})] ELSE s3
  IN [ClearLp(s4, e.p, e.k) EXCEPT !.lin = Put(s.lin, e.p, [NoLin EXCEPT !.kind = e.ev, !.found = 0, !.v = 0, !.e = 0])]

DoGet(s, e) ==
  LET c == Pc(s, e.p)
      cur == s.mp[e.k]
      o == En(s, cur)
      s1 == IF e.found = 1
            THEN LET a == Vif(s, cur = 0 \/ cur # e.e, "C01", "hit_on_absent_or_other_entry")
                     b == Vif(a, cur # 0 /\ e.v # o.v, "C01", "hit_returns_value_not_latest")
                     late == cur # 0 /\ o.dl # 0 /\ o.dl <= c.t
                     \* the cached clock is refreshed by the ticker after it took the policy lock: if that is
                     \* older than the 30 s look-ahead the precise clock is not consulted (known design limit D9)
                     \* heldAcc: virtual time that passed while somebody held the policy lock since that refresh
                     stale == c.t - s.lastTick >= s.thresh /\ s.heldAcc >= s.thresh - (s.thresh \div 10)
                     d == IF late THEN V(b, "C03", IF stale THEN "served_after_deadline_under_stalled_policy_lock" ELSE "served_at_or_after_deadline") ELSE b
                 IN Vif(d, c.ac, "C10", "hit_after_close")
            ELSE LET live == cur # 0 /\ ~s.closed /\ ~(o.dl # 0 /\ o.dl <= s.now) IN
                 Vif(Vif(s, live, "C01", "miss_on_live_entry"), live, "C06", "stored_value_not_readable")
  IN [s1 EXCEPT !.lin = Put(s.lin, e.p, [NoLin EXCEPT !.kind = "get", !.found = e.found, !.v = e.v, !.e = e.e])]

DoDel(s, e) ==
  LET cur == s.mp[e.k]
      s0 == Intervene(s, e.p, e.k)
      s1 == IF e.ok = 1 THEN Vif(s0, cur # e.e \/ cur = 0, "C01", "delete_of_entry_not_in_map")
            ELSE Vif(s0, cur # 0 /\ ~s.closed, "C01", "delete_missed_present_key")
      o == En(s, e.e)
  IN IF e.ok = 1
     THEN [s1 EXCEPT !.mp = [s.mp EXCEPT ![e.k] = 0], !.una = @ \ {e.e},
                     !.en = Put(s.en, e.e, [o EXCEPT !.left = "REMOVED"]),
                     !.owes = Put(s.owes, e.p, <<e.e, "REMOVE", 0>>),
                     !.lin = Put(s.lin, e.p, [NoLin EXCEPT !.kind = "del", !.found = 1, !.v = 0, !.e = e.e])]
     ELSE [s1 EXCEPT !.lin = Put(s.lin, e.p, [NoLin EXCEPT !.kind = "del", !.found = 0, !.v = 0, !.e = 0])]

DoRVisit(s, e) ==
  LET c == Pc(s, e.p)
      cur == s.mp[e.k]
      o == En(s, cur)
      seen == Get(s.rv, e.p, <<>>)
      s1 == Vif(s, cur = 0, "C01", "range_visits_absent_key")
      s2 == Vif(s1, cur # 0 /\ o.v # e.v, "C01", "range_returns_value_not_latest")
      s3 == Vif(Vif(s2, cur # 0 /\ o.dl # 0 /\ o.dl <= c.t, "C03", "range_served_after_deadline"),
                cur # 0 /\ o.dl # 0 /\ o.dl <= c.t, "C01", "range_visits_entry_that_get_reports_absent")
      s4 == Vif(s3, \E i \in DOMAIN seen : seen[i] = e.k, "C16", "range_visits_key_twice")
      s5 == Vif(s4, c.k > 0 /\ Len(seen) >= c.k, "C16", "range_continues_after_stop")
  IN [s5 EXCEPT !.rv = Put(s.rv, e.p, Append(seen, e.k))]

\* --- returns -----------------------------------------------------------------------
Geq(b1, b2) == \A x \in DOMAIN b2 : Get(b1, x, 0) >= b2[x]

DoRet(s, e) ==
  LET c == Pc(s, e.p)
      li == Lin(s, e.p)
      s0 == [s EXCEPT !.pc = Put(s.pc, e.p, NoCall)]
  IN CASE e.op = "get" ->
            LET a == Vif(s0, li.kind # "get", "C01", "get_without_linearization")
                b == Vif(a, li.kind = "get" /\ (e.ok # li.found \/ (e.ok = 1 /\ e.v # li.v)), "C01", "returned_differs_from_read_under_lock")
            IN [b EXCEPT !.gets = s.gets + 1, !.hits = s.hits + (IF li.kind = "get" THEN li.found ELSE e.ok)]
       [] e.op = "lget" ->
            LET hit == li.kind = "get" /\ li.found = 1
                own == li.kind \in {"setnew", "setupd", "load"}
                a == Vif(s0, hit /\ (e.ok # 1 \/ e.v # li.v), "C01", "returned_differs_from_read_under_lock")
                b == Vif(a, ~hit /\ own /\ e.ok = 1 /\ e.v # li.v, "C13", "leader_returns_other_than_loaded")
                d == Vif(b, ~hit /\ ~own /\ e.ok = 1 /\ e.v \notin Get(s.pl, e.p, {}), "C13", "follower_result_not_from_overlapping_load")
                \* C01: a caller that was handed the result of somebody else's load gets a value the key held at some
                \* moment between its call and its return - not one that was deleted, evicted or overwritten before it
                \* called (D21: a caller that misses after the leader stored and unlocked, but before the call left the
                \* single-flight table, joined the finished call)
                d1 == Vif(d, ~hit /\ ~own /\ e.ok = 1 /\ e.v # Get(s.lmine, e.p, <<0, 0>>)[2] /\ e.v \notin Get(s.lc, e.p, {}), "C01", "loading_get_returns_value_the_key_did_not_hold_during_the_call")
                f0 == Vif(d1, c.ac /\ e.n # 2, "C10", "loading_get_after_close_not_cache_closed_error")
                \* C03: a loading Get that did not load (and did not hit under the read lock) hands out the value of the
                \* entry the key still has in the map although that entry's deadline has passed
                cur == s.mp[c.k]
                oc == En(s, cur)
                f == Vif(f0, ~hit /\ ~own /\ e.ok = 1 /\ cur # 0 /\ oc.v = e.v /\ oc.dl # 0 /\ oc.dl <= c.t, "C03", "loading_get_served_expired_entry_without_loading")
                mine == Get(s.lmine, e.p, <<0, 0>>)
            IN [f EXCEPT !.lp = [k \in KeyDom |-> IF s.lp[k] = e.p THEN "none" ELSE s.lp[k]],
                         !.lcur = [s.lcur EXCEPT ![mine[1]] = @ \ {mine[2]}], !.lmine = Put(s.lmine, e.p, <<0, 0>>),
                         !.gets = s.gets + 1, !.hits = s.hits + (IF hit THEN 1 ELSE 0),
                         !.sent = IF e.p \in DOMAIN s.owes /\ s.owes[e.p] # <<>> THEN BagAdd(s.sent, s.owes[e.p]) ELSE s.sent,
                         !.owes = Put(s.owes, e.p, <<>>)]
       [] e.op = "set" ->
            LET big == c.cost > s.maxsize
                a == Vif(s0, e.ok = 0 /\ ~big /\ li.kind # "setrej", "C06", "set_false_without_reason")
                b == Vif(a, e.ok = 0 /\ li.kind \in {"setnew", "setupd"}, "C06", "set_false_but_stored")
                d == Vif(b, e.ok = 1 /\ big, "C06", "set_true_for_cost_above_maxsize")
                f == Vif(d, e.ok = 1 /\ li.kind \notin {"setnew", "setupd", "setclosed"}, "C06", "set_true_but_nothing_stored")
                g == Vif(f, c.ac /\ li.kind \in {"setnew", "setupd"}, "C10", "set_has_effect_after_close")
            IN [g EXCEPT !.sent = IF e.p \in DOMAIN s.owes /\ s.owes[e.p] # <<>> THEN BagAdd(s.sent, s.owes[e.p]) ELSE s.sent,
                         !.owes = Put(s.owes, e.p, <<>>)]
       [] e.op = "del" ->
            [s0 EXCEPT !.sent = IF e.p \in DOMAIN s.owes /\ s.owes[e.p] # <<>> THEN BagAdd(s.sent, s.owes[e.p]) ELSE s.sent,
                       !.owes = Put(s.owes, e.p, <<>>)]
       [] e.op = "wait" ->
            \* (with the entry pool on, entry identities are recycled while their events are in flight: not compared)
            Vif(s0, s.pool = 0 /\ ~s.closed /\ ~Geq(s.appl, Get(s.need, e.p, <<>>)), "C20", "wait_returned_before_earlier_writes_applied")
       [] e.op = "range" ->
            LET seen == ToSet(Get(s.rv, e.p, <<>>))
                live == {k \in KeyDom : s.mp[k] # 0 /\ (En(s, s.mp[k]).dl = 0 \/ En(s, s.mp[k]).dl > c.t)}
                clean == ~Get(s.rdirty, e.p, TRUE) /\ c.k = 0 /\ ~s.closed
                \* a closed cache holds nothing: a Range begun after Close returned visits nothing
                a == Vif(s0, c.ac /\ seen # {}, "C16", "range_visits_entries_of_closed_cache")
            IN Vif(a, clean /\ seen # live, "C16", "range_did_not_visit_exactly_the_resident_keys")
       [] e.op = "len" ->
            LET quiet == \A q \in DOMAIN s.pc : q = e.p \/ s.pc[q].op = "none" IN
            Vif(Vif(s0, c.ac /\ e.n # 0, "C16", "len_nonzero_after_close"),
                quiet /\ ~Get(s.rdirty, e.p, TRUE) /\ ~s.closed /\ e.n # Cardinality({k \in KeyDom : s.mp[k] # 0}), "C16", "len_differs_from_resident_count")
       [] e.op = "stats" ->
            \* C16: once all calls have returned, Hits + Misses = Get calls made and Hits = those that returned a value -
            \* also on a cache that has been closed since
            LET quiet == \A q \in DOMAIN s.pc : q = e.p \/ s.pc[q].op = "none" IN
            Vif(s0, quiet /\ ~Get(s.rdirty, e.p, TRUE) /\ s.mode # "replay" /\ (e.n # s.hits \/ e.n + e.n2 # s.gets), "C16", "stats_differ_from_get_calls_made")
       [] e.op = "close" -> [s0 EXCEPT !.closedDone = TRUE]
       [] OTHER -> s0

\* --- pipeline events -----------------------------------------------------------------
DoPostSend(s, e) ==
  IF e.code = "WAIT" THEN s ELSE [s EXCEPT !.psent = Put(s.psent, e.p, <<e.e, e.code, e.delta>>)]

DoSinkOut(s, e) ==
  LET s1 == Owed(s, e.p)
      o == En(s1, e.e)
      \* st: the tick count when the entry's (re)scheduling event was applied - the wheel can only collect it on a later tick
      s2 == [s1 EXCEPT !.appl = BagAdd(s1.appl, <<e.e, e.code, e.delta>>), !.una = IF e.code = "NEW" THEN @ \ {e.e} ELSE @,
                       !.en = IF e.code \in {"NEW", "UPDATE"} THEN Put(s1.en, e.e, [o EXCEPT !.st = s1.tickSeq, !.sf = s1.nfired]) ELSE @]
  IN IF e.code = "REMOVE" /\ e.dd = 1
     THEN [s2 EXCEPT !.en = Put(s2.en, e.e, [o EXCEPT !.gone = TRUE]),
                     !.press = IF o.gone THEN s2.press ELSE s2.press - o.ub]
     ELSE s2

DoRemoveIn(s, e) ==
  LET s0 == Owed(s, e.p)
      \* C20: evictions the maintenance goroutine has begun and not yet concluded (slot removed or entry handed over)
      s1 == IF e.reason = "EVICTED" /\ e.p = "m" THEN [s0 EXCEPT !.pend = @ \cup {e.e}] ELSE s0 IN
  Vif(Vif(s1, e.reason = "EVICTED" /\ s.pool = 0 /\ s.press <= s.maxsize, "C06", "evicted_while_cost_within_maxsize"),
      \* C05: EVICTED is the reason of a removal under capacity pressure only
      e.reason = "EVICTED" /\ s.pool = 0 /\ s.press <= s.maxsize, "C05", "evicted_reason_while_cost_within_maxsize")

DoMapRemoved(s, e) ==
  LET o == En(s, e.e)
      cur == s.mp[o.k]
      s1 == Owed(s, e.p)
      s2 == [s1 EXCEPT !.rdirty = [q \in DOMAIN s1.rdirty |-> TRUE],
                       !.en = Put(s1.en, e.e, [o EXCEPT !.gone = TRUE, !.left = IF e.deleted = 1 THEN e.reason ELSE @]),
                       !.press = IF o.gone THEN s1.press ELSE s1.press - o.ub]
  IN IF e.deleted = 1
     THEN LET a == Vif(s2, cur # e.e, "C01", "removed_slot_of_another_entry")
              b0 == Vif(a, e.reason = "EXPIRED" /\ (o.dl = 0 \/ o.dl > s.now), "C04", "expired_before_deadline")
              \* C05: the reason is the true one - EXPIRED only for an entry whose deadline has passed
              b1 == Vif(b0, e.reason = "EXPIRED" /\ (o.dl = 0 \/ o.dl > s.now), "C05", "expired_reason_for_entry_whose_deadline_has_not_passed")
              \* C06: a stored value disappears only through Delete, its own deadline or eviction under pressure
              b == Vif(b1, e.reason = "EXPIRED" /\ (o.dl = 0 \/ o.dl > s.now), "C06", "stored_value_removed_as_expired_before_its_deadline_or_without_one")
          IN [b EXCEPT !.mp = [s.mp EXCEPT ![o.k] = IF cur = e.e THEN 0 ELSE @], !.una = @ \ {e.e},
                       !.pn = Put(b.pn, e.p, <<e.e, e.reason>>)]
     ELSE Vif(s2, cur = e.e /\ e.e # 0 /\ ~s.closed, "C01", "identity_removal_failed_on_present_entry")

DoRemovedArm(s, e) ==
  LET o == En(s, e.e)
      s1 == Owed(s, e.p)
      s2 == Vif(s1, o.left # "REMOVED", "C05", "removed_notification_for_entry_not_deleted")
  IN [s2 EXCEPT !.pn = Put(s2.pn, e.p, <<e.e, "REMOVED">>)]

DoNotify(s, e) ==
  LET o == Get(s.pn, e.p, <<0, "none">>)
      en == En(s, o[1])
  IN IF o[1] = 0
     THEN V(s, "C05", "notification_without_removal")
     ELSE LET a == Vif(s, en.k # e.k, "C05", "notification_for_wrong_key")
              b == Vif(a, en.v # e.v, "C05", "notification_with_value_not_held_when_leaving")
              d == Vif(b, o[2] # e.reason, "C05", "notification_with_wrong_reason")
              f == Vif(d, en.notified # 0, "C05", "second_notification")
          IN [f EXCEPT !.pn = Put(s.pn, e.p, <<0, "none">>),
                       !.en = Put(s.en, o[1], [en EXCEPT !.notified = @ + 1]),
                       !.nnotif = s.nnotif + 1]

DoAdv(s, e) == [s EXCEPT !.now = Max(s.now, e.t), !.heldAcc = IF s.stalled /\ e.t > s.now THEN @ + (e.t - s.now) ELSE @]

DoLoad(s, e) ==
  \* a loader ran on process p for key k: its value is what leader and followers must return
  LET waiting == {q \in DOMAIN s.pc : s.pc[q].op = "lget" /\ s.pc[q].k = e.k}
      s0 == Vif(s, s.lrun[e.k] > 0, "C13", "two_loader_invocations_running_for_one_key")
  IN [s0 EXCEPT !.lp = [s.lp EXCEPT ![e.k] = e.p], !.lrun = [s.lrun EXCEPT ![e.k] = @ + 1],
               !.lcur = [s.lcur EXCEPT ![e.k] = @ \cup {e.v}], !.lmine = Put(s.lmine, e.p, <<e.k, e.v>>),
               !.lfail = Put(s.lfail, e.p, FALSE),
               !.pl = [q \in DOMAIN s.pl |-> IF q \in waiting THEN s.pl[q] \cup {e.v} ELSE s.pl[q]],
               !.lin = Put(s.lin, e.p, [NoLin EXCEPT !.kind = "load", !.v = e.v, !.cost = e.cost, !.ttl = e.ttl, !.t = e.t])]

\* --- snapshots at quiescent points ---------------------------------------------------
RECURSIVE SumIdx(_, _, _)
SumIdx(sq, i, n) == IF n = 0 THEN 0 ELSE sq[n][i] + SumIdx(sq, i, n - 1)

DoSnap(s, e) ==
  LET res == e.res  pol == e.pol
      resIds == {res[i][2] : i \in DOMAIN res}
      polIds == {pol[i][1] : i \in DOMAIN pol}
      mapIds == {s.mp[k] : k \in {k \in KeyDom : s.mp[k] # 0}}
      sched == ToSet(e.sched)
      costSum == SumIdx(res, 3, Len(res))
      q == e.q = 1 /\ ~s.closed
      nopool == s.pool = 0
      \* C01/C16: the map holds exactly what the history says, with the latest values
      a == Vif(s, q /\ resIds # mapIds, "C01", "resident_set_differs_from_history")
      b == Vif(a, q /\ \E i \in DOMAIN res : res[i][2] \in DOMAIN s.en /\
                      (s.en[res[i][2]].v # res[i][5] \/ s.en[res[i][2]].k # res[i][1]), "C01", "resident_value_differs_from_history")
      c == Vif(b, q /\ e.len # Len(res), "C16", "len_differs_from_resident_count")
      \* C02: accounting
      d == Vif(c, q /\ nopool /\ costSum > s.maxsize, "C02", "resident_cost_above_maxsize_after_drain")
      f == Vif(d, q /\ nopool /\ e.ws # costSum, "C02", "policy_total_differs_from_resident_cost")
      g == Vif(f, q /\ nopool /\ e.est # costSum, "C16", "estimated_size_differs_from_resident_cost")
      h == Vif(g, q /\ nopool /\ (polIds # resIds \/ Len(pol) # Len(res)), "C02", "tracked_set_differs_from_resident_set")
      i1 == Vif(h, q /\ nopool /\ \E i \in DOMAIN pol : pol[i][1] \in DOMAIN s.en /\ s.en[pol[i][1]].cost # pol[i][2],
                "C02", "policy_cost_differs_from_api_cost")
      j == Vif(i1, q /\ nopool /\ \E i \in DOMAIN res : res[i][4] # 0 /\ res[i][2] \notin sched, "C02", "resident_entry_with_deadline_not_on_wheel")
      \* C07 seen from the store: region sizes and flags
      k1 == Vif(j, q /\ nopool /\ \E r \in 1..3 :
                     LET rs == {x \in DOMAIN pol : pol[x][3] = r} IN
                     e.lens[r][2] # Cardinality(rs), "C07", "region_count_differs")
      k2 == Vif(k1, q /\ nopool /\ \E x \in DOMAIN pol : pol[x][4] # (IF pol[x][3] = 1 THEN 1 ELSE IF pol[x][3] = 2 THEN 2 ELSE 4) \/ pol[x][5] # 0,
                "C07", "region_flag_inconsistent")
      \* C05: stored = resident + notified
      m == Vif(k2, q /\ \E x \in DOMAIN s.en : ~s.en[x].dead /\ (x \in mapIds) = (s.en[x].notified = 1),
               "C05", "departed_entry_without_exactly_one_notification")
      \* C16 counters
      n == Vif(m, e.q = 1 /\ (e.hits # s.hits \/ e.hits + e.misses # s.gets), "C16", "hit_miss_counters_differ_from_calls")
      \* C04 seen from the store: after a tick at time T nothing resident is overdue by a finest tick
      o == Vif(n, q /\ nopool /\ s.lastTick = e.t /\ \E i \in DOMAIN res : res[i][4] # 0 /\ (res[i][4] \div s.tick) < (e.t \div s.tick)
                                                            /\ En(s, res[i][2]).st < s.tickSeq,
               "C04", "resident_entry_overdue_after_tick")
      \* the same, counted in firings of the ticker instead of ticks the code chose to run: the harness let the
      \* ticker fire at time T while the policy lock was busy for a moment, freed the lock and waited (tickfired)
      o2 == Vif(o, q /\ nopool /\ s.fired = e.t /\ \E i \in DOMAIN res : res[i][4] # 0 /\ (res[i][4] \div s.tick) < (e.t \div s.tick)
                                                            /\ En(s, res[i][2]).sf < s.nfired,
               "C04", "resident_entry_overdue_although_the_ticker_fired_after_its_deadline")
  IN IF q
     THEN [o2 EXCEPT !.nsnap = s.nsnap + 1,
                    \* entries settled (notified once, not resident) need not be looked at again; cost bounds restart
                    !.en = [x \in DOMAIN s.en |->
                              IF x \in mapIds THEN [s.en[x] EXCEPT !.ub = s.en[x].cost]
                              ELSE [s.en[x] EXCEPT !.dead = TRUE]],
                    !.press = costSum,
                    !.sent = <<>>, !.appl = <<>>, !.psent = <<>>, !.owes = <<>>, !.una = {}]
     ELSE o2

DoTickLocked(s, e) == [Owed(s, e.p) EXCEPT !.lastTick = e.t, !.stalled = TRUE, !.heldAcc = 0, !.tickSeq = @ + 1]

DoHang(s, e) ==
  \* a Wait that never returns breaks C20; any call (Wait included) that hangs around Close breaks C10
  LET k == "call_did_not_return_" \o e.op
      s1 == IF e.op = "wait" THEN V(s, "C20", k) ELSE V(s, "C10", k)
      s2 == IF e.op = "wait" /\ s.closed THEN V(s1, "C10", k) ELSE s1
      \* the loading driver never closes the cache: a call that does not return there is a key or shard
      \* left blocked by a load (C13)
      s3 == IF s.mode = "load" /\ ~s.closed THEN V(s2, "C13", k) ELSE s2
  IN [s3 EXCEPT !.hangs = s.hangs + 1]

DoEnd(s, e) == [s EXCEPT !.stuck = s.stuck + e.stuck, !.skipped = s.skipped + e.skipped]

\* C01 (D21): the values key k held at some moment since a pending loading Get on k was called, and the values of
\* the loader invocations for k that were running at the call or began later (a value too large for the cache or
\* turned away by the doorkeeper is handed to the callers that waited for it although the key never holds it)
NoteVal(s, k, v) ==
  [s EXCEPT !.lc = [q \in DOMAIN s.lc |-> IF Pc(s, q).op = "lget" /\ Pc(s, q).k = k THEN s.lc[q] \cup {v} ELSE s.lc[q]]]

Upd(s0, e) ==
  LET s == [s0 EXCEPT !.nevents = @ + 1] IN
  CASE e.ev = "reset" -> DoReset(s, e)
    [] e.ev = "call" -> DoCall(s, e)
    [] e.ev = "ret" -> DoRet(s, e)
    [] e.ev = "setnew" -> NoteVal(DoSetNew(s, e), e.k, e.v)
    [] e.ev = "setupd" -> NoteVal(DoSetUpd(s, e), e.k, e.v)
    [] e.ev \in {"setrej", "setclosed"} -> DoSetOther(s, e)
    [] e.ev = "get" -> DoGet(s, e)
    [] e.ev = "del" -> DoDel(s, e)
    [] e.ev = "rvisit" -> DoRVisit(s, e)
    [] e.ev = "postsend" -> DoPostSend(s, e)
    [] e.ev = "sinkout" -> DoSinkOut(s, e)
    [] e.ev = "removein" -> DoRemoveIn(s, e)
    [] e.ev = "mapremoved" -> [DoMapRemoved(s, e) EXCEPT !.pend = @ \ {e.e}]
    [] e.ev = "handoff" -> [s EXCEPT !.pend = @ \ {e.e}]
    \* C20: the wake-up of the waiters comes after the evictions of the batch have happened and been notified
    [] e.ev = "prewake" -> Vif(s, s.pool = 0 /\ ~s.closed /\ (s.pend # {} \/ Get(s.pn, e.p, <<0, "none">>)[1] # 0), "C20",
                               "waiters_woken_before_the_evictions_of_the_batch_were_completed_and_notified")
    [] e.ev = "removedarm" -> DoRemovedArm(s, e)
    [] e.ev = "notify" -> DoNotify(s, e)
    [] e.ev = "adv" -> DoAdv(s, e)
    [] e.ev = "load" -> LET s1 == NoteVal(DoLoad(s, e), e.k, e.v) IN [s1 EXCEPT !.lrunv = [s.lrunv EXCEPT ![e.k] = @ \cup {e.v}]]
    [] e.ev = "loadend" -> [s EXCEPT !.lrunv = [s.lrunv EXCEPT ![e.k] = @ \ {Get(s.lmine, e.p, <<0, 0>>)[2]}], !.lrun = [s.lrun EXCEPT ![e.k] = IF @ > 0 THEN @ - 1 ELSE 0],
                                     !.lfail = Put(s.lfail, e.p, e.o # "ok"),
                                     \* nothing will be stored: the load failed, or its value is larger than the cache
                                     !.lp = IF (e.o # "ok" \/ Lin(s, e.p).cost > s.maxsize) /\ s.lp[e.k] = e.p THEN [s.lp EXCEPT ![e.k] = "none"] ELSE s.lp]
    [] e.ev = "snap" -> DoSnap(s, e)
    [] e.ev = "ticklocked" -> DoTickLocked(s, e)
    \* C08 at cache level: every key was read once (so each entry's read event reaches the policy at most once), rings
    \* filled while somebody else held the policy lock; afterwards hits reach the policy again
    [] e.ev = "readbusy" -> Vif(Vif(Vif(s, e.dups > 0, "C08", "hit_delivered_to_the_policy_more_than_once"),
                                    e.delivered > e.reads, "C08", "more_read_events_delivered_than_hits_made"),
                                4 * e.later < e.reads2, "C08", "later_hits_do_not_reach_the_policy_after_reads_while_the_policy_lock_was_busy")
    [] e.ev = "badaccess" -> V(s, "C08", "read_event_applied_to_entry_recycled_for_another_key")
    [] e.ev = "hang" -> DoHang(s, e)
    [] e.ev = "end" -> DoEnd(s, e)
    [] e.ev = "census" -> Vif(Vif(s, e.after > e.before, "C10", "background_goroutine_alive_after_close"),
                              e.qgrow > 0, "C10", "write_after_close_still_queues_policy_events")
    [] e.ev = "closecancel" -> [s EXCEPT !.closed = TRUE]
    [] e.ev = "stall" -> [s EXCEPT !.stalled = (e.on = 1)]
    [] e.ev = "tickfired" -> [s EXCEPT !.fired = e.t, !.nfired = @ + 1]
    [] e.ev = "mlocked" -> [s EXCEPT !.stalled = TRUE]
    \* the tickdone / munlock hooks sit just before the unlock; under the gate scheduler the goroutine may be
    \* parked there still holding the lock, and the scheduler logs "unlocked" once it has let it go
    [] e.ev = "tickdone" -> [Owed(s, e.p) EXCEPT !.stalled = IF s.mode = "replay" THEN @ ELSE FALSE]
    [] e.ev = "munlock" -> [Owed(s, e.p) EXCEPT !.stalled = IF s.mode = "replay" THEN @ ELSE FALSE]
    [] e.ev = "unlocked" -> [s EXCEPT !.stalled = FALSE]
    [] OTHER -> s

TraceInit == l = 1 /\ st = Init0 /\ done = FALSE

Step == /\ l <= Len(Trace)
        /\ st' = Upd([st EXCEPT !.line = l], Trace[l])
        /\ l' = l + 1
        /\ UNCHANGED done

Finish ==
  /\ l = Len(Trace) + 1 /\ ~done
  /\ done' = TRUE
  /\ JsonSerialize(IOEnv.VERIF_RESULT,
        [lines |-> Len(Trace), consumed |-> l - 1, viol |-> st.viol, traces |-> st.traces, snaps |-> st.nsnap,
         notifications |-> st.nnotif, hangs |-> st.hangs, stuck |-> st.stuck, skipped |-> st.skipped])
  /\ UNCHANGED <<l, st>>

TraceNext == Step \/ Finish
TraceSpec == TraceInit /\ [][TraceNext]_<<l, st, done>>
=============================================================================
