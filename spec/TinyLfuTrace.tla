---------------------------- MODULE TinyLfuTrace ----------------------------
(* Trace validation for C07 (and the admission rule of C09): every line is one white-box step  *)
(* of the real TinyLfu with the complete policy state after it.  TLC checks (a) the C07          *)
(* invariants on every logged state, (b) that the logged state is what TinyLfu.tla yields from  *)
(* the previous logged state for SOME sequence of admit outcomes (div counts the steps it is    *)
(* not).                                                                                       *)
EXTENDS TinyLfu, Json, IOUtils

Trace == ndJsonDeserialize(IOEnv.VERIF_TRACE)
VARIABLES l, st, tid, capSum, viol, div, nops, nseg, done
tvars == <<l, st, tid, capSum, viol, div, nops, nseg, done>>
Ev == Trace[l]

V(k) == IF Cardinality(viol) >= 40 THEN viol ELSE viol \cup {<<"C07", tid, l, k>>}

\* the policy state record of a logged line (ids beyond the run's n have weight 0)
Rec(e, evs) == [win |-> e.win, pb |-> e.pb, pt |-> e.pt, lenW |-> e.lenW, lenB |-> e.lenB, lenT |-> e.lenT,
                cntW |-> e.cntW, cntB |-> e.cntB, cntT |-> e.cntT, capW |-> e.capW, capT |-> e.capT, ws |-> e.ws,
                amt |-> e.amt, pw |-> [i \in Ids |-> IF i <= Len(e.pw) THEN e.pw[i] ELSE 0], ev |-> evs, adm |-> <<>>, ok |-> TRUE]

TraceInit == l = 1 /\ st = Init0 /\ tid = "none" /\ capSum = 0 /\ viol = {} /\ div = 0 /\ nops = 0 /\ nseg = 0 /\ done = FALSE

Choices == [1..N -> BOOLEAN]
Expected(pre, e) ==
  CASE e.op = "set" -> {[PSet(pre, e.e, e.a, ch) EXCEPT !.adm = <<>>] : ch \in Choices}
    [] e.op = "access" -> {PAccess(pre, e.e)}
    [] e.op = "update" -> {[PUpdate(pre, e.e, e.a, ch) EXCEPT !.adm = <<>>] : ch \in Choices}
    [] e.op = "remove" -> {PRemove(pre, e.e)}
    [] e.op = "resize" -> {Resize(pre, e.a)}
    [] OTHER -> {}

Checks(s, e) ==
  LET v1 == IF Structure(s) THEN viol ELSE V("region_sizes_counts_or_membership_inconsistent")
      v2 == IF s.capW >= 1 /\ s.capT >= 0 /\ s.capW + s.capT = capSum THEN v1
            ELSE IF Cardinality(v1) >= 40 THEN v1 ELSE v1 \cup {<<"C07", tid, l, "region_capacity_out_of_bounds_or_not_conserved">>}
      over == e.ev = "op" /\ e.op \in {"set", "update"} /\ (s.ws > Cap \/ s.ws < 0)
      v3 == IF ~over THEN v2 ELSE IF Cardinality(v2) >= 40 THEN v2 ELSE v2 \cup {<<"C07", tid, l, "policy_total_above_maxsize_after_insert_or_cost_change">>}
      v4 == IF e.flagbad = 0 THEN v3 ELSE IF Cardinality(v3) >= 40 THEN v3 ELSE v3 \cup {<<"C07", tid, l, "region_flag_or_links_inconsistent">>}
  IN v4

TrReset ==
  /\ l <= Len(Trace) /\ Ev.ev = "reset" /\ l' = l + 1
  /\ st' = Rec(Ev, <<>>) /\ tid' = Ev.id /\ capSum' = Ev.capW + Ev.capT /\ nseg' = nseg + 1
  /\ viol' = IF Ev.cap = Cap THEN viol ELSE V("trace_for_other_capacity")
  /\ UNCHANGED <<div, nops, done>>

TrOp ==
  /\ l <= Len(Trace) /\ Ev.ev = "op" /\ l' = l + 1
  /\ LET post == Rec(Ev, Ev.evicted) IN
     /\ st' = post
     /\ viol' = IF Ev.op = "resize" /\ Clamp(st, Ev.a) # Ev.a
                THEN Checks(post, Ev) \cup {<<"C07", tid, l, "climb_amount_outside_clamp">>}
                ELSE Checks(post, Ev)
     /\ div' = IF post \in Expected(st, Ev) THEN div ELSE div + 1
  /\ nops' = nops + 1
  /\ UNCHANGED <<tid, capSum, nseg, done>>

\* the policy panicked inside a step (the eviction step did not complete); the history ends there
TrPanic ==
  /\ l <= Len(Trace) /\ Ev.ev = "panic" /\ l' = l + 1
  /\ viol' = V("policy_step_panicked")
  /\ UNCHANGED <<st, tid, capSum, div, nops, nseg, done>>

Finish ==
  /\ l = Len(Trace) + 1 /\ ~done /\ done' = TRUE
  /\ JsonSerialize(IOEnv.VERIF_RESULT, [lines |-> Len(Trace), consumed |-> l - 1, viol |-> viol, div |-> div, ops |-> nops, traces |-> nseg])
  /\ UNCHANGED <<l, st, tid, capSum, viol, div, nops, nseg>>

TraceNext == TrReset \/ TrOp \/ TrPanic \/ Finish
TraceSpec == TraceInit /\ [][TraceNext]_tvars
=============================================================================
