------------------------------ MODULE HybridApi ------------------------------
(* C15 at the public builders: one line per hybrid cache built through builder.go          *)
(* (Hybrid, Hybrid+AdmProbability(1), Hybrid.Loading, Loading.Hybrid), filled with `stored` *)
(* distinct keys of cost 1 beyond MaxSize at a pace the workers keep up with, settled, and *)
(* read again.  Default admission probability is 1 and the secondary store never fails, so *)
(* every entry that is not resident has been evicted for capacity and must have reached the *)
(* secondary store (insec >= stored - maxsize), and the second pass finds every key - from  *)
(* memory or from the secondary store - without invoking the loader again.                 *)
EXTENDS Integers, Sequences, TLC, Json, IOUtils
Trace == ndJsonDeserialize(IOEnv.VERIF_TRACE)
VARIABLES i, viol, done
vars == <<i, viol, done>>
Ev == Trace[i]
Init == i = 1 /\ viol = {} /\ done = FALSE
Line ==
  /\ i <= Len(Trace) /\ Ev.op = "hyb" /\ i' = i + 1
  /\ viol' = viol
      \cup (IF Ev.insec >= Ev.stored - Ev.maxsize THEN {} ELSE {<<"C15", Ev.path, i, "entries_left_memory_without_reaching_the_secondary_store">>})
      \cup (IF Ev.found = Ev.stored THEN {} ELSE {<<"C15", Ev.path, i, "evicted_entry_not_found_again_by_a_later_get">>})
      \cup (IF Ev.loads_second_pass = 0 THEN {} ELSE {<<"C15", Ev.path, i, "evicted_entry_had_to_be_loaded_again">>})
      \cup (IF Ev.wrong = 0 THEN {} ELSE {<<"C14", Ev.path, i, "hybrid_get_returned_another_value">>})
      \cup (IF Ev.secerrs = 0 THEN {} ELSE {<<"C15", Ev.path, i, "error_handler_called_although_the_store_never_failed">>})
  /\ UNCHANGED done
Finish ==
  /\ i = Len(Trace) + 1 /\ ~done /\ done' = TRUE
  /\ JsonSerialize(IOEnv.VERIF_RESULT, [lines |-> Len(Trace), consumed |-> i - 1, viol |-> viol])
  /\ UNCHANGED <<i, viol>>
Next == Line \/ Finish
Spec == Init /\ [][Next]_vars
=============================================================================
