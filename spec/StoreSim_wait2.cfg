SPECIFICATION SimSpec
CONSTANTS
  Keys = {1, 2}
  Clients = {1, 2, 3}
  MaxSize = 2
  Costs = {1}
  TTLs = {0}
  QCap = 1
  BatchMax = 2
  MaxEnt = 6
  MaxTime = 1
  OpsPerClient = 3
  Allowed <- AllowAllW
  WithTicker = FALSE
  Thresh = 30
  AdvSteps = {1}
  StallOnly = FALSE
  Door = FALSE
  FixD2 = TRUE
  FixD6 = TRUE
  FixD7 = TRUE
  FixD16 = TRUE
  FixD10a = TRUE
  FixD20 = TRUE
  Depth = 60
  Gates <- GatesAll
  Shift = 30
  Start = 3
  MaxTicks = 0
CONSTRAINT Export
