SPECIFICATION Spec
CONSTANTS
  Clients = {1, 2}
  MaxOps = 3
  MaxVal = 4
  Forget = TRUE
INVARIANTS Served OneLoader Quiet
PROPERTY Returns
