-------------------------------- MODULE List --------------------------------
(* The intrusive doubly linked list of internal/list.go at pointer grain, as the eviction  *)
(* policy (window / probation / protected) and the timer wheel (one list per slot) use it. *)
(* An entry carries two independent link sets (policy: prev/next, wheel: wheelPrev/        *)
(* wheelNext, internal/entry.go MetaData), so it can be a member of one policy list and of *)
(* one wheel list at the same time; every list has a sentinel root.  One action per public *)
(* method of List; the pointer surgery of insert / remove / move is written out as the     *)
(* code does it.  The region bits of internal/policy_flag.go share one byte with the       *)
(* removed / from-secondary / deleted bits: list operations must leave those alone.        *)
(*                                                                                         *)
(* Used by C07 (each region's recorded size and count equal the sum and number of its      *)
(* entries; every tracked entry in exactly one region), C04 (wheel slots), C11 (recency    *)
(* order is the list order).                                                               *)
EXTENDS Integers, Sequences, FiniteSets

CONSTANTS
  Ents,       \* entry ids, positive integers
  NLists,     \* lists are 1..NLists, the root of list l is the node -l
  LType,      \* [1..NLists -> {1,2,3,4}]: 1 probation, 2 protected, 3 wheel, 4 window (list.go constants)
  Weights,    \* policy weights an entry may have
  OtherEnts   \* entries whose removed / from-secondary / deleted bits vary (bounds the exhaustive run)

VARIABLES
  nxt, prv,   \* [linkset -> [node -> node or 0]]; linkset 1 = policy, 2 = wheel
  len, cnt,   \* recorded sum of weights and number of entries per list
  pw,         \* policyWeight per entry
  flag        \* set of flag names per entry

vars == <<nxt, prv, len, cnt, pw, flag>>

Lists == 1..NLists
Root(l) == 0 - l
LS(l) == IF LType[l] = 3 THEN 2 ELSE 1
Nodes == Ents \cup {Root(l) : l \in Lists}
RegionFlag(l) == CASE LType[l] = 1 -> "probation" [] LType[l] = 2 -> "protected"
                   [] LType[l] = 4 -> "window" [] OTHER -> "none"
RegionFlags == {"probation", "protected", "window"}
OtherFlags == {"removed", "nvm", "deleted"}

NIL == 0

Init ==
  /\ nxt = [s \in 1..2 |-> [n \in Nodes |-> IF n < 0 /\ LS(0 - n) = s THEN n ELSE NIL]]
  /\ prv = [s \in 1..2 |-> [n \in Nodes |-> IF n < 0 /\ LS(0 - n) = s THEN n ELSE NIL]]
  /\ len = [l \in Lists |-> 0]
  /\ cnt = [l \in Lists |-> 0]
  /\ pw \in [Ents -> Weights]
  /\ flag = [e \in Ents |-> {}]

(* ----------------------------- abstraction ------------------------------ *)
RECURSIVE Walk(_, _, _, _)
Walk(f, s, n, fuel) ==           \* nodes reached from n (exclusive of roots) following f[s]
  IF n <= 0 \/ fuel = 0 THEN <<>> ELSE <<n>> \o Walk(f, s, f[s][n], fuel - 1)
Fwd(l) == Walk(nxt, LS(l), nxt[LS(l)][Root(l)], Cardinality(Ents) + 1)
Bwd(l) == Walk(prv, LS(l), prv[LS(l)][Root(l)], Cardinality(Ents) + 1)
Rev(s) == [i \in 1..Len(s) |-> s[Len(s) + 1 - i]]
Members(l) == {Fwd(l)[i] : i \in 1..Len(Fwd(l))}
InSet(s, e) == \E l \in Lists : LS(l) = s /\ e \in Members(l)
ListOf(s, e) == CHOOSE l \in Lists : LS(l) = s /\ e \in Members(l)
RECURSIVE SumW(_)
SumW(S) == IF S = {} THEN 0 ELSE LET x == CHOOSE y \in S : TRUE IN pw[x] + SumW(S \ {x})

(* ----------------------------- the code --------------------------------- *)
(* insert(e, at): e.prev = at; e.next = at.next; e.prev.next = e; e.next.prev = e *)
Insert(l, e, at) ==
  LET s == LS(l)
      an == nxt[s][at] IN
  /\ nxt' = [nxt EXCEPT ![s] = [@ EXCEPT ![e] = an, ![at] = e]]
  /\ prv' = [prv EXCEPT ![s] = [@ EXCEPT ![e] = at, ![an] = e]]
  /\ len' = [len EXCEPT ![l] = @ + pw[e]]
  /\ cnt' = [cnt EXCEPT ![l] = @ + 1]
  /\ flag' = IF s = 1 THEN [flag EXCEPT ![e] = @ \cup {RegionFlag(l)}] ELSE flag
  /\ UNCHANGED pw

RemoveE(l, e) ==
  LET s == LS(l)
      p == prv[s][e]
      n == nxt[s][e] IN
  /\ nxt' = [nxt EXCEPT ![s] = [[@ EXCEPT ![p] = n] EXCEPT ![e] = NIL]]
  /\ prv' = [prv EXCEPT ![s] = [[@ EXCEPT ![n] = p] EXCEPT ![e] = NIL]]
  /\ len' = [len EXCEPT ![l] = @ - pw[e]]
  /\ cnt' = [cnt EXCEPT ![l] = @ - 1]
  /\ flag' = IF s = 1 THEN [flag EXCEPT ![e] = @ \ RegionFlags] ELSE flag
  /\ UNCHANGED pw

(* move(e, at): unlink e, then link it after at; at is read before the unlink (as the   *)
(* caller computed it) but at.next after it                                              *)
Move(l, e, at) ==
  LET s == LS(l) IN
  IF e = at THEN UNCHANGED vars ELSE
  LET p == prv[s][e]
      n == nxt[s][e]
      nx1 == [nxt[s] EXCEPT ![p] = n]
      pv1 == [prv[s] EXCEPT ![n] = p]
      an == nx1[at]
      nx2 == [[nx1 EXCEPT ![e] = an] EXCEPT ![at] = e]
      pv2 == [[pv1 EXCEPT ![e] = at] EXCEPT ![an] = e] IN
  /\ nxt' = [nxt EXCEPT ![s] = nx2]
  /\ prv' = [prv EXCEPT ![s] = pv2]
  /\ UNCHANGED <<len, cnt, pw, flag>>

Free(s, e) == ~InSet(s, e)

PushFront(l, e) == Free(LS(l), e) /\ Insert(l, e, Root(l))
PushBack(l, e)  == Free(LS(l), e) /\ Insert(l, e, prv[LS(l)][Root(l)])
Remove(l, e)    == e \in Members(l) /\ RemoveE(l, e)
MoveToFront(l, e) == e \in Members(l) /\ Move(l, e, Root(l))
MoveToBack(l, e)  == e \in Members(l) /\ Move(l, e, prv[LS(l)][Root(l)])
MoveBefore(l, e, m) == e \in Members(l) /\ m \in Members(l) /\ Move(l, e, prv[LS(l)][m])
MoveAfter(l, e, m)  == e \in Members(l) /\ m \in Members(l) /\ Move(l, e, m)
PopTail(l) == LET t == prv[LS(l)][Root(l)] IN
              IF t > 0 THEN RemoveE(l, t) ELSE UNCHANGED vars
(* tlfu.go UpdateCost / slru.go updateCost: the weight of a member changes and the list's *)
(* recorded size follows by the same amount                                               *)
Cost(l, e, w) == /\ e \in Members(l) /\ LS(l) = 1
                 /\ pw' = [pw EXCEPT ![e] = w]
                 /\ len' = [len EXCEPT ![l] = @ + (w - pw[e])]
                 /\ UNCHANGED <<nxt, prv, cnt, flag>>
(* the other bits of the flag byte, set by store.go / tlfu.go *)
SetOther(e, f, b) == /\ flag' = [flag EXCEPT ![e] = IF b THEN @ \cup {f} ELSE @ \ {f}]
                     /\ UNCHANGED <<nxt, prv, len, cnt, pw>>

Next ==
  \/ \E l \in Lists, e \in Ents :
        \/ PushFront(l, e) \/ PushBack(l, e) \/ Remove(l, e) \/ MoveToFront(l, e) \/ MoveToBack(l, e)
        \/ \E m \in Ents : MoveBefore(l, e, m) \/ MoveAfter(l, e, m)
        \/ \E w \in Weights : Cost(l, e, w)
  \/ \E l \in Lists : PopTail(l)
  \/ \E e \in OtherEnts, f \in OtherFlags, b \in BOOLEAN : SetOther(e, f, b)

Spec == Init /\ [][Next]_vars
\* the drifting `len` of a wheel slot is the only unbounded value
Bounded == \A l \in Lists : LS(l) = 2 => (len[l] >= -1 /\ len[l] <= 3)

(* ----------------------------- properties ------------------------------- *)
(* a well-formed ring per list: forward and backward traversals are mirror images, end  *)
(* at the root, and prev/next are inverse                                               *)
WellFormed ==
  \A l \in Lists :
    /\ Fwd(l) = Rev(Bwd(l))
    /\ Len(Fwd(l)) <= Cardinality(Ents)
    /\ \A i \in 1..Len(Fwd(l)) : \A j \in 1..Len(Fwd(l)) : i # j => Fwd(l)[i] # Fwd(l)[j]
    /\ LET s == LS(l) IN \A n \in Members(l) \cup {Root(l)} :
          prv[s][nxt[s][n]] = n /\ nxt[s][prv[s][n]] = n
(* at most one list per link set; an entry outside every list of a link set has nil links *)
OneList ==
  \A e \in Ents : \A s \in 1..2 :
    /\ Cardinality({l \in Lists : LS(l) = s /\ e \in Members(l)}) <= 1
    /\ (~InSet(s, e)) => nxt[s][e] = NIL /\ prv[s][e] = NIL
(* C07: recorded size and count are the sum and number of the members *)
(* (a wheel slot's `len` adds the weight at insertion and subtracts the weight at removal:  *)
(* it drifts when the cost changes in between and nothing reads it - only its count holds) *)
Recorded == \A l \in Lists : /\ cnt[l] = Cardinality(Members(l))
                             /\ LS(l) = 1 => len[l] = SumW(Members(l))
(* C07: the region bit says which region list holds the entry - exactly one or none *)
RegionBits ==
  \A e \in Ents :
    flag[e] \cap RegionFlags = IF InSet(1, e) THEN {RegionFlag(ListOf(1, e))} ELSE {}
Inv == WellFormed /\ OneList /\ Recorded /\ RegionBits

(* list operations never touch the removed / from-secondary / deleted bits, and a wheel  *)
(* list operation never touches a policy link or a region bit (and the other way round)  *)
OtherBitsKept ==
  [][(\A e \in Ents : flag'[e] \cap OtherFlags = flag[e] \cap OtherFlags)
      \/ \E e \in Ents, f \in OtherFlags, b \in BOOLEAN : SetOther(e, f, b)]_vars
LinkSetsIndependent ==
  [][(nxt'[1] = nxt[1] /\ prv'[1] = prv[1]) \/ (nxt'[2] = nxt[2] /\ prv'[2] = prv[2])]_vars
=============================================================================
