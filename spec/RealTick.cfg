SPECIFICATION Spec
CONSTANTS
  WheelTickMs = 1074
  PeriodMs = 1000
  SlackMs = 900
CHECK_DEADLOCK FALSE
