SPECIFICATION Spec
CONSTANTS
  Keys = {1}
  Clients = {1, 2}
  MaxSize = 2
  Costs = {1}
  TTLs = {1, 2, 3}
  QCap = 2
  BatchMax = 2
  MaxEnt = 2
  MaxTime = 6
  OpsPerClient = 2
  Allowed <- AllowTime
  WithTicker = TRUE
  Thresh = 2
  AdvSteps = {1}
  StallOnly = TRUE
  Door = FALSE
  FixD2 = TRUE
  FixD6 = TRUE
  FixD7 = TRUE
  FixD16 = TRUE
  FixD10a = TRUE
  FixD20 = TRUE
VIEW view
INVARIANTS TypeOK NoBadC03Fresh
