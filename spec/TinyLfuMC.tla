----------------------------- MODULE TinyLfuMC -----------------------------
(* Exhaustive configuration of TinyLfu.tla: all sequences of insert / access / cost-update /  *)
(* remove / resize steps over N entries with costs 1..Cap, every admit outcome, every        *)
(* climber amount.                                                                         *)
EXTENDS TinyLfu
CONSTANT MaxOps
VARIABLES st, n
mcvars == <<st, n>>

Tracked == {e \in Ids : Region(st, e) # "none"}
Choices == [1..N -> BOOLEAN]

MCInit == st = Init0 /\ n = 0
MCNext ==
  /\ n < MaxOps /\ n' = n + 1
  /\ \/ \E e \in Ids \ Tracked, w \in 1..Cap, ch \in Choices : st' = PSet(st, e, w, ch)
     \/ \E e \in Tracked : st' = PAccess(st, e)
     \/ \E e \in Tracked, d \in (1 - Cap)..(Cap - 1), ch \in Choices :
          st.pw[e] + d >= 1 /\ st.pw[e] + d <= Cap /\ d # 0 /\ st' = PUpdate(st, e, d, ch)
     \/ \E e \in Tracked : st' = PRemove(st, e)
     \/ \E a \in (0 - Cap)..Cap : st' = Resize(st, a)
MCSpec == MCInit /\ [][MCNext]_mcvars

InvStructure == Structure(st)
InvBounds == Bounds(st)
InvWithinCap == WithinCap(st)
\* the eviction callback only ever reports entries that were tracked, each once
InvEvicted == NoDup(st.ev) /\ \A i \in DOMAIN st.ev : Region(st, st.ev[i]) = "none"
=============================================================================
