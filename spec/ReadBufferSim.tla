---------------------------- MODULE ReadBufferSim ----------------------------
(* Schedules for the deterministic scheduler of the C08 harness: random walks of ReadBuffer  *)
(* (real capacity) recorded as the sequence of readers taking their next atomic step.        *)
(* Some readers are "slow": having claimed a slot they stall before publishing it until the  *)
(* drain has passed that slot (or the other readers have finished), which is the window in   *)
(* which lazily published slots, stale slots and the token interact.                         *)
EXTENDS ReadBuffer, Json, IOUtils
CONSTANTS Depth, LagSets
VARIABLES hist, slow, lag
(* A "lagging" reader, having loaded head, stalls before it loads tail until the drain has moved head a whole  *)
(* lap past its reading and the ring is full again (or the others have finished): its size computation then     *)
(* sees more than Cap items - the stale-head case of the full test.                                             *)
LagNone == {{}}
LagLast == {{CHOOSE r \in Readers : \A o \in Readers : o <= r}}
Fast == Readers \ slow
CanStep(r) == ~( /\ r \in slow /\ pc[r] = "publish" /\ head <= lt[r]
                 /\ \E o \in Fast : cnt[o] < MaxAdds \/ pc[o] # "idle" )
Lagging(r) == /\ r \in lag /\ pc[r] = "loadtail" /\ (head < lh[r] + Cap \/ tail - head < Cap)
              /\ \E o \in Readers \ lag : cnt[o] < MaxAdds \/ pc[o] # "idle"
SimInit == lag \in LagSets /\ Init /\ hist = <<[readers |-> Cardinality(Readers), adds |-> MaxAdds]>> /\ slow \in (IF lag = {} THEN (SUBSET Readers) \ {Readers} ELSE {{}})
SimNext == \E r \in Readers : CanStep(r) /\ ~Lagging(r) /\ Step(r) /\ hist' = Append(hist, [r |-> r]) /\ UNCHANGED <<slow, lag>>
SimSpec == SimInit /\ [][SimNext]_<<vars, hist, slow, lag>>
Export == IF TLCGet("level") >= Depth \/ ~ENABLED SimNext
          THEN ndJsonSerialize(IOEnv.VERIF_SIMDIR \o "/sim_" \o ToString(TLCGet("stats").traces) \o ".ndjson", hist)
          ELSE TRUE
=============================================================================
