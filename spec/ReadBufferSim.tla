---------------------------- MODULE ReadBufferSim ----------------------------
(* Schedules for the deterministic scheduler of the C08 harness: random walks of ReadBuffer  *)
(* (real capacity) recorded as the sequence of readers taking their next atomic step.        *)
(* Some readers are "slow": having claimed a slot they stall before publishing it until the  *)
(* drain has passed that slot (or the other readers have finished), which is the window in   *)
(* which lazily published slots, stale slots and the token interact.                         *)
EXTENDS ReadBuffer, Json, IOUtils
CONSTANT Depth
VARIABLES hist, slow
Fast == Readers \ slow
CanStep(r) == ~( /\ r \in slow /\ pc[r] = "publish" /\ head <= lt[r]
                 /\ \E o \in Fast : cnt[o] < MaxAdds \/ pc[o] # "idle" )
SimInit == Init /\ hist = <<[readers |-> Cardinality(Readers), adds |-> MaxAdds]>> /\ slow \in (SUBSET Readers) \ {Readers}
SimNext == \E r \in Readers : CanStep(r) /\ Step(r) /\ hist' = Append(hist, [r |-> r]) /\ UNCHANGED slow
SimSpec == SimInit /\ [][SimNext]_<<vars, hist, slow>>
Export == IF TLCGet("level") >= Depth \/ ~ENABLED SimNext
          THEN ndJsonSerialize(IOEnv.VERIF_SIMDIR \o "/sim_" \o ToString(TLCGet("stats").traces) \o ".ndjson", hist)
          ELSE TRUE
=============================================================================
