---------------------------- MODULE ReadBufferSim ----------------------------
(* Schedules for the deterministic scheduler of the C08 harness: random walks of ReadBuffer  *)
(* (real capacity) recorded as the sequence of readers taking their next atomic step.        *)
EXTENDS ReadBuffer, Json, IOUtils
CONSTANT Depth
VARIABLE hist
SimInit == Init /\ hist = <<[readers |-> Cardinality(Readers), adds |-> MaxAdds]>>
SimNext == \E r \in Readers : Step(r) /\ hist' = Append(hist, [r |-> r])
SimSpec == SimInit /\ [][SimNext]_<<vars, hist>>
Export == IF TLCGet("level") >= Depth \/ ~ENABLED SimNext
          THEN ndJsonSerialize(IOEnv.VERIF_SIMDIR \o "/sim_" \o ToString(TLCGet("stats").traces) \o ".ndjson", hist)
          ELSE TRUE
=============================================================================
