------------------------------ MODULE SfStress ------------------------------
(* C13 without hooks: calls of Group.Do (internal/singleflight.go) made by free-running   *)
(* goroutines on a few keys of one group.  Each logged call carries its key, two stamps of *)
(* one atomic counter (c0 before the call, c1 after the return), the key and number of the *)
(* invocation its value names and that invocation's own stamps (i0 at its start, i1 at its *)
(* end).  The single-flight contract for a caller: the value it receives was produced for  *)
(* its key, by an invocation whose call was in the group's table at some moment of the     *)
(* caller's call: it began before the caller returned, and its leader returned (l1, the     *)
(* table entry is removed just before) after the caller called.  At Group level a finished *)
(* function whose call is still in the table may be joined; the cache closes that window   *)
(* with Forget inside the loader's critical section (LoadFlight.tla, D21).                  *)
EXTENDS Integers, Sequences, TLC, Json, IOUtils
Trace == ndJsonDeserialize(IOEnv.VERIF_TRACE)
VARIABLES i, tid, viol, n, done
vars == <<i, tid, viol, n, done>>
Ev == Trace[i]
Init == i = 1 /\ tid = 0 /\ viol = {} /\ n = 0 /\ done = FALSE
New == /\ i <= Len(Trace) /\ Ev.op = "new" /\ tid' = Ev.id /\ i' = i + 1 /\ UNCHANGED <<viol, n, done>>
End == /\ i <= Len(Trace) /\ Ev.op = "end" /\ i' = i + 1 /\ UNCHANGED <<tid, viol, n, done>>
Call ==
  /\ i <= Len(Trace) /\ Ev.op = "call" /\ i' = i + 1 /\ n' = n + 1
  /\ viol' = viol
       \cup (IF Ev.err = 0 THEN {} ELSE {<<"C13", tid, i, "caller_got_an_error_no_invocation_produced">>})
       \cup (IF Ev.err = 0 /\ (Ev.vk # Ev.k \/ (Ev.known = 1 /\ Ev.ik # Ev.k))
             THEN {<<"C13", tid, i, "caller_received_the_result_of_a_load_for_another_key">>} ELSE {})
       \cup (IF Ev.err = 0 /\ Ev.known = 0 THEN {<<"C13", tid, i, "caller_received_a_value_no_invocation_produced">>} ELSE {})
       \cup (IF Ev.err = 0 /\ Ev.known = 1 /\ Ev.vk = Ev.k /\ Ev.ik = Ev.k /\ (Ev.i0 > Ev.c1 \/ Ev.l1 < Ev.c0)
             THEN {<<"C13", tid, i, "caller_received_the_result_of_a_call_that_was_not_in_the_table_during_its_own_call">>} ELSE {})
  /\ UNCHANGED <<tid, done>>
Finish ==
  /\ i = Len(Trace) + 1 /\ ~done /\ done' = TRUE
  /\ JsonSerialize(IOEnv.VERIF_RESULT, [lines |-> Len(Trace), consumed |-> i - 1, calls |-> n, viol |-> viol])
  /\ UNCHANGED <<i, tid, viol, n>>
Next == New \/ Call \/ End \/ Finish
Spec == Init /\ [][Next]_vars
=============================================================================
