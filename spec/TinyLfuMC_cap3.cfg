SPECIFICATION MCSpec
CONSTANTS
  Cap = 3
  N = 3
  SignedCmp = TRUE
  MaxOps = 6
INVARIANTS InvStructure InvBounds InvWithinCap InvEvicted
