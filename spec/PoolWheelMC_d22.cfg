SPECIFICATION Spec
CONSTANTS
  FixD22 = FALSE
  MaxLife = 3
INVARIANTS NoTtlNeverExpired FreeNotLinked
CHECK_DEADLOCK FALSE
