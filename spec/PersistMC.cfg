SPECIFICATION MCSpec
CONSTANTS
  BlockMax = 1
  RequireMeta = TRUE
INVARIANTS InvRoundTrip InvSmaller InvPrefix InvTruncated InvFaultSafe InvVersion
