------------------------------- MODULE Hybrid -------------------------------
(* The hybrid cache of theine-go: memory tier (shard map + policy) and secondary tier, with   *)
(* the from-secondary flag, the hand-off queue and the background workers                    *)
(* (internal/store.go GetWithSecodary, DeleteWithSecondary, removeEntry, processSecondary).   *)
(* One sequential client; eviction, expiry and the worker steps interleave at will.           *)
(*                                                                                         *)
(*   Set(k)        in-place update keeps the entry's from-secondary flag (D14b) and leaves an  *)
(*                 existing secondary copy alone (D14c)                                       *)
(*   Get(k)        memory hit, else promotion under the shard lock: secondary copy with a      *)
(*                 passed deadline is deleted (miss), otherwise inserted with the flag set     *)
(*   Delete(k)     both tiers                                                                 *)
(*   Evict(k)      capacity eviction: flagged entries are dropped, others are handed to the    *)
(*                 workers and stay readable in memory until copied                            *)
(*   WCopy / WDrop the worker copies the entry (still in the map) and then removes the slot by *)
(*                 identity                                                                   *)
(* FixB / FixC / FixD select the design in which an update clears the flag / a Set invalidates *)
(* the secondary copy / the worker removes the slot only if the entry still holds the value it *)
(* copied (D14d); with FALSE the specification is the code as it is (known findings).          *)
(*   Close         shards closed, maintenance and workers stop: afterwards nothing is served     *)
(*                 (C10).  FixE = FALSE is the code before the repair D19, whose Get still        *)
(*                 promoted-and-served out of the secondary tier after Close.                    *)
EXTENDS Integers, Sequences, FiniteSets, TLC

CONSTANTS Keys, MaxVal, MaxTime, TTLs, FixB, FixC, FixD, FixE, Loading

VARIABLES mem, sec, hq, wk, cur, now, nextV, nextId, bad, closed
vars == <<mem, sec, hq, wk, cur, now, nextV, nextId, bad, closed>>

NoM == [has |-> FALSE, v |-> 0, dl |-> 0, nvm |-> FALSE, id |-> 0]
NoS == [has |-> FALSE, v |-> 0, dl |-> 0]
NoC == [has |-> FALSE, v |-> 0, dl |-> 0]

Init == /\ mem = [k \in Keys |-> NoM] /\ sec = [k \in Keys |-> NoS] /\ hq = <<>> /\ wk = [k |-> 0, id |-> 0, v |-> 0, dl |-> 0, st |-> "idle"]
        /\ cur = [k \in Keys |-> NoC] /\ now = 1 /\ nextV = 1 /\ nextId = 1 /\ bad = {} /\ closed = FALSE

Alive(x) == x.has /\ (x.dl = 0 \/ x.dl > now)

Set(k, ttl) ==
  /\ ~closed
  /\ nextV <= MaxVal /\ nextId <= MaxVal + 2
  /\ LET d == IF ttl > 0 THEN now + ttl ELSE (IF mem[k].has THEN mem[k].dl ELSE 0) IN
     /\ mem' = [mem EXCEPT ![k] = IF mem[k].has THEN [@ EXCEPT !.v = nextV, !.dl = d, !.nvm = IF FixB THEN FALSE ELSE @]
                                  ELSE [has |-> TRUE, v |-> nextV, dl |-> d, nvm |-> FALSE, id |-> nextId]]
     /\ cur' = [cur EXCEPT ![k] = [has |-> TRUE, v |-> nextV, dl |-> d]]
  /\ sec' = IF FixC THEN [sec EXCEPT ![k] = NoS] ELSE sec
  /\ nextV' = nextV + 1 /\ nextId' = nextId + 1
  /\ UNCHANGED <<hq, wk, now, bad, closed>>

Check(k, v) ==   \* C14 on a value returned for k
  IF ~cur[k].has THEN bad \cup {"served_deleted_or_unknown"}
  ELSE IF v # cur[k].v THEN bad \cup {"served_stale"}
  ELSE IF cur[k].dl # 0 /\ cur[k].dl <= now THEN bad \cup {"served_expired"} ELSE bad

Get(k) ==
  /\ ~closed
  /\ IF Alive(mem[k])
     THEN /\ bad' = Check(k, mem[k].v) /\ UNCHANGED <<mem, sec, hq, wk, cur, now, nextV, nextId>>
     ELSE IF sec[k].has
     THEN IF sec[k].dl # 0 /\ sec[k].dl <= now
          THEN /\ sec' = [sec EXCEPT ![k] = NoS] /\ UNCHANGED <<mem, hq, wk, cur, now, nextV, nextId, bad>>
          ELSE /\ nextId <= MaxVal + 2
               /\ mem' = [mem EXCEPT ![k] = [has |-> TRUE, v |-> sec[k].v, dl |-> sec[k].dl, nvm |-> TRUE, id |-> nextId]]
               /\ nextId' = nextId + 1
               /\ bad' = Check(k, sec[k].v)
               /\ UNCHANGED <<sec, hq, wk, cur, now, nextV>>
     ELSE UNCHANGED <<mem, sec, hq, wk, cur, now, nextV, nextId, bad>>
  /\ UNCHANGED closed

\* loading Get (LoadingStore.Get with a secondary cache): memory hit; else, under the shard lock, a
\* secondary copy that is not past its deadline is promoted (flag set); an expired copy counts as
\* absent (it is left where it is) and the loader runs: its value is what the key holds from now on
LGet(k, ttl) ==
  /\ ~closed
  /\ IF Alive(mem[k])
     THEN /\ bad' = Check(k, mem[k].v) /\ UNCHANGED <<mem, sec, hq, wk, cur, now, nextV, nextId>>
     ELSE IF sec[k].has /\ ~(sec[k].dl # 0 /\ sec[k].dl <= now)
     THEN /\ nextId <= MaxVal + 2
          /\ mem' = [mem EXCEPT ![k] = [has |-> TRUE, v |-> sec[k].v, dl |-> sec[k].dl, nvm |-> TRUE, id |-> nextId]]
          /\ nextId' = nextId + 1
          /\ bad' = Check(k, sec[k].v)
          /\ UNCHANGED <<sec, hq, wk, cur, now, nextV>>
     ELSE /\ nextV <= MaxVal /\ nextId <= MaxVal + 2
          /\ LET d == IF ttl > 0 THEN now + ttl ELSE 0 IN
             \* a slot still held by an expired, not yet reclaimed entry is updated in place
             /\ mem' = [mem EXCEPT ![k] = IF mem[k].has THEN [@ EXCEPT !.v = nextV, !.dl = IF ttl > 0 THEN d ELSE @, !.nvm = IF FixB THEN FALSE ELSE @]
                                          ELSE [has |-> TRUE, v |-> nextV, dl |-> d, nvm |-> FALSE, id |-> nextId]]
             /\ cur' = [cur EXCEPT ![k] = [has |-> TRUE, v |-> nextV, dl |-> IF mem[k].has /\ ttl = 0 THEN mem[k].dl ELSE d]]
          /\ nextV' = nextV + 1 /\ nextId' = nextId + 1
          /\ UNCHANGED <<sec, hq, wk, now, bad>>
  /\ UNCHANGED closed

\* after Close: the memory tier is empty (shards reset); the repaired Get misses under the shard lock,
\* the code before D19 still read the secondary tier and returned what it found (nothing is inserted
\* into a closed shard)
GetClosed(k) ==
  /\ closed
  /\ bad' = IF ~FixE /\ sec[k].has /\ ~(sec[k].dl # 0 /\ sec[k].dl <= now) THEN bad \cup {"served_after_close"} ELSE bad
  /\ sec' = IF ~FixE /\ sec[k].has /\ sec[k].dl # 0 /\ sec[k].dl <= now THEN [sec EXCEPT ![k] = NoS] ELSE sec
  /\ UNCHANGED <<mem, hq, wk, cur, now, nextV, nextId, closed>>

Delete(k) ==
  /\ mem' = [mem EXCEPT ![k] = NoM] /\ sec' = [sec EXCEPT ![k] = NoS] /\ cur' = [cur EXCEPT ![k] = NoC]
  /\ UNCHANGED <<hq, wk, now, nextV, nextId, bad, closed>>

\* capacity eviction of the entry of k (the policy may pick any entry)
Evict(k) ==
  /\ ~closed
  /\ mem[k].has /\ ~\E i \in DOMAIN hq : hq[i] = mem[k].id
  /\ IF mem[k].nvm
     THEN mem' = [mem EXCEPT ![k] = NoM] /\ UNCHANGED hq
     ELSE hq' = Append(hq, mem[k].id) /\ UNCHANGED mem
  /\ UNCHANGED <<sec, wk, cur, now, nextV, nextId, bad, closed>>

\* timer expiry of the memory entry
Expire(k) ==
  /\ ~closed
  /\ mem[k].has /\ mem[k].dl # 0 /\ mem[k].dl <= now
  /\ mem' = [mem EXCEPT ![k] = NoM]
  /\ UNCHANGED <<sec, hq, wk, cur, now, nextV, nextId, bad, closed>>

\* worker: take an item; under the read lock check the key is still in the map and copy the entry
WCopy ==
  /\ ~closed
  /\ wk.st = "idle" /\ hq # <<>>
  /\ LET id == Head(hq)
         ks == {k \in Keys : mem[k].has}            \* "key still exists" (by key, not by identity)
         k0 == {k \in Keys : mem[k].has /\ mem[k].id = id}
     IN /\ hq' = Tail(hq)
        /\ IF k0 = {} THEN UNCHANGED <<sec, wk>>
           ELSE LET k == CHOOSE x \in k0 : TRUE IN
                /\ sec' = [sec EXCEPT ![k] = [has |-> TRUE, v |-> mem[k].v, dl |-> mem[k].dl]]
                /\ wk' = [k |-> k, id |-> id, v |-> mem[k].v, dl |-> mem[k].dl, st |-> "copied"]
  /\ UNCHANGED <<mem, cur, now, nextV, nextId, bad, closed>>

\* worker: remove the slot by identity
WDrop ==
  /\ wk.st = "copied"
  /\ mem' = IF mem[wk.k].has /\ mem[wk.k].id = wk.id /\ (FixD => mem[wk.k].v = wk.v) THEN [mem EXCEPT ![wk.k] = NoM] ELSE mem
  /\ wk' = [wk EXCEPT !.st = "idle"]
  /\ UNCHANGED <<sec, hq, cur, now, nextV, nextId, bad, closed>>

\* Close: every shard is closed and emptied under its lock, the maintenance goroutine, the ticker and
\* the workers stop (a worker in the middle of an item finishes it: WDrop stays enabled)
Close ==
  /\ ~closed /\ closed' = TRUE
  /\ mem' = [k \in Keys |-> NoM] /\ hq' = <<>>
  /\ UNCHANGED <<sec, wk, cur, now, nextV, nextId, bad>>

Advance == now < MaxTime /\ now' = now + 1 /\ UNCHANGED <<mem, sec, hq, wk, cur, nextV, nextId, bad, closed>>

Next == \/ \E k \in Keys, t \in TTLs : Set(k, t)
        \/ (Loading /\ \E k \in Keys, t \in TTLs : LGet(k, t))
        \/ \E k \in Keys : Get(k) \/ GetClosed(k) \/ Delete(k) \/ Evict(k) \/ Expire(k)
        \/ WCopy \/ WDrop \/ Advance \/ Close
Spec == Init /\ [][Next]_vars

\* C14
Fresh == bad = {}
\* C10 (hybrid part): nothing is served once Close has happened
ClosedQuiet == "served_after_close" \notin bad
\* C15: once the workers are idle, a key whose value is live is in one of the tiers with that value
\* (entries dropped because their flag said "already in the secondary tier" must really be there)
Demoted == (~closed /\ hq = <<>> /\ wk.st = "idle") =>
             \A k \in Keys : (cur[k].has /\ (cur[k].dl = 0 \/ cur[k].dl > now)) =>
                 \/ (mem[k].has /\ mem[k].v = cur[k].v)
                 \/ (sec[k].has /\ sec[k].v = cur[k].v)
=============================================================================
