------------------------------- MODULE ListMC -------------------------------
EXTENDS List
MCLType3 == <<4, 1, 3>>          \* a window list, the probation list, one wheel slot
MCLType4 == <<4, 1, 2, 3>>       \* thorough: the three regions and one wheel slot
=============================================================================
