----------------------------- MODULE LinSearch -----------------------------
(* Linearizability of recorded call/return histories of the public API, decided by TLC      *)
(* from the calls and their results alone - no hook inside the code is consulted, so a      *)
(* change that moves a hook together with the code it sits in is still judged.              *)
(*                                                                                         *)
(* One line of the input is one problem: the operations of one run on ONE key (a map is     *)
(* linearizable iff each key is: linearizability is compositional), as one sequence per     *)
(* client in program order.  Every operation carries two stamps taken from one shared       *)
(* atomic counter, c before the call and r after the return, so r(a) < c(b) implies that a  *)
(* returned before b was called (the stamped interval contains the real one: the real-time  *)
(* order used here is a subset of the true one, never more).                                *)
(*                                                                                         *)
(* The sequential specification is a register per key, val = 0 for "absent":               *)
(*   set v      val' = v            (every written value is unique in the run)              *)
(*   noop       a Set that returned false stores nothing (lossy runs: cost above MaxSize or *)
(*              the doorkeeper; in a strict run a refused Set is never legal)               *)
(*   del        val' = 0                                                                    *)
(*   hit v      val = v             (Get / loading Get / one Range visit that yields v)     *)
(*   miss       strict: val = 0;  lossy: val' = 0                                           *)
(*   load v     val' = v: the store of a value the loader produced inside this call. A      *)
(*              loading Get that runs the loader is two steps of the code - the lookup that *)
(*              misses, then (shard write lock, no second lookup) loader and store - and is *)
(*              recorded as two operations: miss [call, loader began], load [loader began,  *)
(*              return]; the load is admitted like a Set whatever the key holds by then     *)
(* strict = a run in which nothing may be lost (no TTL, total cost of all keys within       *)
(* MaxSize, no doorkeeper): a miss needs the key to be absent (C06: a stored value is       *)
(* readable and is not lost without a reason).  lossy = eviction and expiry may remove a    *)
(* value at any time: a miss is always possible, but it is final - the lost value is never  *)
(* served again (C01).                                                                      *)
(*                                                                                         *)
(* TLC searches the linearizations of every problem (one initial state per problem; the     *)
(* state is the vector of per-client positions and the register).  A problem is             *)
(* linearizable iff a state with every operation placed is reachable; reaching it sets      *)
(* register prob of TLC.  The post-condition writes the set of problems never finished.     *)
(* Loader invocations of one key must not overlap in time (C13): Overlap below.             *)
EXTENDS Integers, Sequences, FiniteSets, TLC, Json, IOUtils

Problems == ndJsonDeserialize(IOEnv.VERIF_TRACE)

VARIABLES prob, idx, val

P == Problems[prob]
NC == Len(P.ops)
Strict == P.mode = "strict"
Pending(c) == idx[c] < Len(P.ops[c])
NextOp(c) == P.ops[c][idx[c] + 1]
\* c's next operation may be placed next: nobody else's unplaced operation returned before it was called
Minimal(c) == \A d \in 1..NC : (d # c /\ Pending(d)) => NextOp(d).r > NextOp(c).c

Effect(o) ==
  CASE o.t = "set"  -> val' = o.v
    [] o.t = "noop" -> UNCHANGED val
    [] o.t = "del"  -> val' = 0
    [] o.t = "hit"  -> val = o.v /\ UNCHANGED val
    [] o.t = "miss" -> IF Strict THEN val = 0 /\ UNCHANGED val ELSE val' = 0
    [] o.t = "load" -> val' = o.v
    [] o.t = "refused" -> FALSE     \* a Set that returned false in a strict run: never legal

Lin(c) == /\ Pending(c) /\ Minimal(c)
          /\ Effect(NextOp(c))
          /\ idx' = [idx EXCEPT ![c] = @ + 1]
          /\ UNCHANGED prob

AllDone == \A c \in 1..NC : ~Pending(c)
Finish == AllDone /\ TLCGet(prob) = FALSE /\ TLCSet(prob, TRUE) /\ UNCHANGED <<prob, idx, val>>

Init == /\ prob \in 1..Len(Problems)
        /\ idx = [c \in 1..Len(Problems[prob].ops) |-> 0]
        /\ val = 0
        /\ TLCSet(prob, FALSE)
Next == Finish \/ \E c \in 1..NC : Lin(c)
Spec == Init /\ [][Next]_<<prob, idx, val>>

\* C13: two loader invocations for one key overlap in time (stamps taken inside the loader function)
Overlap(p) == \E i, j \in 1..Len(p.loads) : i < j /\ p.loads[i].c < p.loads[j].r /\ p.loads[j].c < p.loads[i].r

\* C06: in a strict run nothing may be evicted or expire (reasons 1 = EVICTED, 2 = EXPIRED)
LossNote(p) == p.mode = "strict" /\ \E i \in 1..Len(p.notes) : p.notes[i].reason # 0
\* C05: the listener is told about a value this key never held, or twice about the same value (values are unique)
StoredVals(p) == UNION {{p.ops[c][i].v : i \in {j \in 1..Len(p.ops[c]) : p.ops[c][j].t \in {"set", "load"}}} : c \in 1..Len(p.ops)}
StrayNote(p) == \/ \E i \in 1..Len(p.notes) : p.notes[i].v \notin StoredVals(p)
                \/ \E i, j \in 1..Len(p.notes) : i < j /\ p.notes[i].v = p.notes[j].v

NOps(p) == LET RECURSIVE S(_) S(c) == IF c = 0 THEN 0 ELSE Len(p.ops[c]) + S(c - 1) IN S(Len(p.ops))
RECURSIVE Sum(_)
Sum(i) == IF i = 0 THEN 0 ELSE NOps(Problems[i]) + Sum(i - 1)

Post ==
  LET failed == {i \in 1..Len(Problems) : TLCGet(i) = FALSE}
      over == {i \in 1..Len(Problems) : Overlap(Problems[i])}
      loss == {i \in 1..Len(Problems) : LossNote(Problems[i])}
      stray == {i \in 1..Len(Problems) : StrayNote(Problems[i])}
  IN JsonSerialize(IOEnv.VERIF_RESULT,
       [problems |-> Len(Problems), ops |-> Sum(Len(Problems)),
        failed |-> {<<Problems[i].id, Problems[i].k, Problems[i].mode, i>> : i \in failed},
        overlap |-> {<<Problems[i].id, Problems[i].k, Problems[i].mode, i>> : i \in over},
        lossnote |-> {<<Problems[i].id, Problems[i].k, Problems[i].mode, i>> : i \in loss},
        straynote |-> {<<Problems[i].id, Problems[i].k, Problems[i].mode, i>> : i \in stray}])
=============================================================================
