------------------------------- MODULE Counter -------------------------------
(* The striped hit/miss counter (internal/counter.go UnsignedCounter) at the grain of its     *)
(* atomic operations.  Add(1): load the stripe, compare-and-swap cnt -> cnt + 1; on failure     *)
(* pick another stripe and try again.  Value(): sum of the stripes.  C16 needs                 *)
(* Hits + Misses = number of completed Gets: no increment may be lost, whatever the             *)
(* interleaving.  Cas = FALSE is the design that writes cnt + 1 back with a plain store ("the    *)
(* token is held exclusively" - but tokens of different goroutines can point at one stripe): it  *)
(* must violate NoLostUpdate (non-vacuity configuration).                                       *)
EXTENDS Integers, FiniteSets, TLC

CONSTANTS Procs, NStripes, MaxAdds, Cas

Stripes == 0..(NStripes - 1)
VARIABLES stripe, pc, at, seen, done
vars == <<stripe, pc, at, seen, done>>

Init == /\ stripe = [s \in Stripes |-> 0] /\ pc = [p \in Procs |-> "idle"] /\ at = [p \in Procs |-> 0]
        /\ seen = [p \in Procs |-> 0] /\ done = 0

Begin(p, s) == /\ pc[p] = "idle" /\ done + Cardinality({q \in Procs : pc[q] # "idle"}) < MaxAdds
               /\ pc' = [pc EXCEPT ![p] = "load"] /\ at' = [at EXCEPT ![p] = s] /\ UNCHANGED <<stripe, seen, done>>
Load(p) == /\ pc[p] = "load" /\ seen' = [seen EXCEPT ![p] = stripe[at[p]]] /\ pc' = [pc EXCEPT ![p] = "cas"]
           /\ UNCHANGED <<stripe, at, done>>
\* CompareAndSwap(cnt, cnt+1); on failure another stripe
Swap(p) == /\ pc[p] = "cas"
           /\ IF ~Cas \/ stripe[at[p]] = seen[p]
              THEN /\ stripe' = [stripe EXCEPT ![at[p]] = seen[p] + 1] /\ pc' = [pc EXCEPT ![p] = "idle"] /\ done' = done + 1
                   /\ UNCHANGED <<at, seen>>
              ELSE /\ \E s \in Stripes : at' = [at EXCEPT ![p] = s]
                   /\ pc' = [pc EXCEPT ![p] = "load"] /\ UNCHANGED <<stripe, seen, done>>
Next == \E p \in Procs : (\E s \in Stripes : Begin(p, s)) \/ Load(p) \/ Swap(p)
Spec == Init /\ [][Next]_vars

RECURSIVE Sum(_, _)
Sum(f, S) == IF S = {} THEN 0 ELSE LET x == CHOOSE y \in S : TRUE IN f[x] + Sum(f, S \ {x})
Value == Sum(stripe, Stripes)
\* every completed Add is in the sum, and nothing else
NoLostUpdate == Value = done
=============================================================================
