------------------------------ MODULE LockTable ------------------------------
(* C19: the lock domains of theine-go as a table, and the validation of lock probes recorded   *)
(* at the hook points of a running cache against it.                                           *)
(*   key, value, cost, deadline of an entry and the shard map:  the shard's RW lock            *)
(*        (read lock to read them, write lock to change them or the map)                       *)
(*   list links, flags, policy cost, policy totals, timer wheel, sketch: the policy mutex      *)
(*   removal of a map slot by eviction/expiry: policy mutex AND the shard write lock           *)
(* A probe line says which lock the table requires at that point ("need") and whether some     *)
(* goroutine held it at that moment ("held": the probing goroutine is inside the section, so   *)
(* a lock that is required is held by itself).                                                 *)
EXTENDS Integers, Sequences, FiniteSets, TLC, Json, IOUtils
Trace == ndJsonDeserialize(IOEnv.VERIF_TRACE)
Domains == [get |-> {"shard_read"}, set |-> {"shard_write"}, delete |-> {"shard_write"},
            mapremoved |-> {"shard_write", "policy"}]
Needed(at) == IF at \in DOMAIN Domains THEN Domains[at] ELSE {"policy"}
VARIABLES l, tid, viol, nprobe, nseg, done
vars == <<l, tid, viol, nprobe, nseg, done>>
Ev == Trace[l]
TraceInit == l = 1 /\ tid = "none" /\ viol = {} /\ nprobe = 0 /\ nseg = 0 /\ done = FALSE
Step ==
  /\ l <= Len(Trace) /\ l' = l + 1 /\ UNCHANGED done
  /\ CASE Ev.ev = "reset" -> tid' = Ev.id /\ nseg' = nseg + 1 /\ UNCHANGED <<viol, nprobe>>
       [] Ev.ev = "probe" ->
            /\ viol' = IF Ev.need \in Needed(Ev.at) /\ Ev.held = 1 THEN viol
                       ELSE IF Cardinality(viol) >= 40 THEN viol
                       ELSE viol \cup {<<"C19", tid, l, Ev.at \o "_without_" \o Ev.need \o "_lock">>}
            /\ nprobe' = nprobe + 1 /\ UNCHANGED <<tid, nseg>>
       [] OTHER -> UNCHANGED <<tid, viol, nprobe, nseg>>
Finish == /\ l = Len(Trace) + 1 /\ ~done /\ done' = TRUE
          /\ JsonSerialize(IOEnv.VERIF_RESULT, [lines |-> Len(Trace), consumed |-> l - 1, viol |-> viol, traces |-> nseg, probes |-> nprobe])
          /\ UNCHANGED <<l, tid, viol, nprobe, nseg>>
TraceSpec == TraceInit /\ [][Step \/ Finish]_vars
=============================================================================
