SPECIFICATION TraceSpec
CONSTANTS
  Readers = {1, 2, 3}
  Writers = {4, 5}
  NS = 4
  Recheck = TRUE
  Revoke = TRUE
  Rollback = TRUE
