------------------------------- MODULE Store -------------------------------
(* The asynchronous write pipeline of theine-go (internal/store.go): shard map updates     *)
(* under the shard lock, events travelling through the bounded write queue, the single     *)
(* maintenance goroutine applying them in batches under the policy lock (sinkWrite),       *)
(* capacity eviction and timer expiry removing map slots by identity (removeEntry), the    *)
(* ticker, Wait markers and Close.                                                         *)
(*                                                                                         *)
(* One action = one critical section of the code (or the code between two hook points of   *)
(* the verif build, which is what the gate scheduler of the harness can release):          *)
(*   client     SetMap / DelMap (shard write lock)  -> Send (blocking channel send)        *)
(*              WaitSend -> Wake rendez-vous         Get (shard read lock)    Close        *)
(*   maintenance TakeBatch -> MLock -> ApplyHead* (EvPick -> RmIn/RmRecheck)* -> EndBatch  *)
(*              -> Wake -> MUnlock                                                         *)
(*   ticker     TickLock (refreshes the cached clock AFTER taking the lock) -> ExpPick     *)
(*              -> RmIn -> RmRecheck -> TickUnlock                                         *)
(* The eviction policy is abstract here (any tracked entry may be the victim while the     *)
(* policy total is over capacity; TinyLfu.tla has the precise policy) and so is the timer  *)
(* wheel (any scheduled entry whose deadline has passed may be visited; TimerWheel.tla).   *)
(*                                                                                         *)
(* The Fix* constants select between the code as pinned (FALSE) and the repaired design    *)
(* (TRUE) for the defects found by the checks (see DESIGN.md section 5).                   *)
EXTENDS Integers, Sequences, FiniteSets, TLC

CONSTANTS Keys, Clients, MaxSize, Costs, TTLs, QCap, BatchMax, MaxEnt, MaxTime,
          OpsPerClient,
          Allowed,        \* [Clients -> SUBSET {"set","del","wait","get","close"}]
          WithTicker,
          StallOnly,      \* TRUE: the ticker never misses a time unit unless blocked on the policy lock
          AdvSteps,       \* the amounts by which the clock may jump
          Thresh,         \* the 30 s look-ahead of getFromShard in model time units
          Door,           \* doorkeeper on: a new key may be rejected (first sighting / after a reset)
          FixD2,          \* Wait: one wake-up per waiter (per-marker channel), observes cancel
          FixD6,          \* REMOVE event is not ignored for an entry already removed by eviction/expiry
          FixD7,          \* removed flag set after the deadline re-check; aborted expiry re-schedules
          FixD16,         \* policy total compared as a signed value
          FixD10a,        \* writers give up their blocking send once the store is cancelled
          FixD20          \* the expiry re-check and the removal of the map slot are one shard critical section

VARIABLES map, ent, nextId, queue, batch, hadWait, mpc, mpend, evicting, mnew,
          tpc, tpend, tnow, plock, wsize, now, cnow,
          cpc, cop, cnt, closed, cancelled,
          \* ghost ledgers (not part of VIEW)
          notif, nreason, left, need, applied, sentDone, nextTag, bad

vars == <<map, ent, nextId, queue, batch, hadWait, mpc, mpend, evicting, mnew, tpc, tpend, tnow,
          plock, wsize, now, cnow, cpc, cop, cnt, closed, cancelled,
          notif, nreason, left, need, applied, sentDone, nextTag, bad>>

view == <<map, ent, nextId, queue, batch, hadWait, mpc, mpend, evicting, mnew, tpc, tpend, tnow,
          plock, wsize, now, cnow, cpc, cop, cnt, closed, cancelled,
          notif, nreason, left, need, applied, sentDone, bad>>

Ids == 1..MaxEnt
None == <<0, "none", "none">>      \* no pending removal
NoEnt == [k |-> 0, cost |-> 0, dl |-> 0, pw |-> 0, tr |-> FALSE, sc |-> FALSE, rm |-> FALSE, dd |-> FALSE]
NoOp == [code |-> "none", id |-> 0, delta |-> 0, rs |-> FALSE, tag |-> 0]

Min(a, b) == IF a < b THEN a ELSE b

\* comparison `weightedSize > capacity` on the unsigned field (D16: a negative total wraps)
Over(x) == IF FixD16 THEN x > MaxSize ELSE (x < 0 \/ x > MaxSize)

Resident == {e \in Ids : ent[e].k # 0 /\ map[ent[e].k] = e}
Tracked  == {e \in Ids : ent[e].tr}

RECURSIVE SumCost(_)
SumCost(S) == IF S = {} THEN 0 ELSE LET e == CHOOSE x \in S : TRUE IN ent[e].cost + SumCost(S \ {e})

Init ==
  /\ map = [k \in Keys |-> 0]
  /\ ent = [e \in Ids |-> NoEnt]
  /\ nextId = 1
  /\ queue = <<>> /\ batch = <<>> /\ hadWait = {} /\ mpc = "top" /\ mpend = None /\ evicting = FALSE /\ mnew = 0
  /\ tpc = "idle" /\ tpend = None /\ tnow = 0 /\ plock = "free" /\ wsize = 0 /\ now = 1 /\ cnow = 1
  /\ cpc = [c \in Clients |-> "idle"] /\ cop = [c \in Clients |-> NoOp] /\ cnt = [c \in Clients |-> 0]
  /\ closed = FALSE /\ cancelled = FALSE
  /\ notif = [e \in Ids |-> 0] /\ nreason = [e \in Ids |-> "none"] /\ left = [e \in Ids |-> "none"]
  /\ need = [c \in Clients |-> {}] /\ applied = {} /\ sentDone = {} /\ nextTag = 1 /\ bad = {}

Ghosts == <<notif, nreason, left, need, applied, sentDone, nextTag, bad>>
MaintV == <<batch, hadWait, mpc, mpend, evicting, mnew>>
TickV  == <<tpc, tpend, tnow>>
CliV   == <<cpc, cop, cnt>>

CanStart(c, o) == cpc[c] = "idle" /\ cnt[c] < OpsPerClient /\ o \in Allowed[c]

-----------------------------------------------------------------------------
(* Client: Set (phase 1, under the shard write lock) *)
SetMap(c, k, cost, ttl) ==
  /\ CanStart(c, "set") /\ cost <= MaxSize
  /\ IF closed
     THEN /\ cnt' = [cnt EXCEPT ![c] = @ + 1]
          /\ UNCHANGED <<map, ent, nextId, cpc, cop, nextTag>>
     ELSE IF map[k] # 0
     THEN LET e == map[k]
              d == IF ttl > 0 THEN now + ttl ELSE ent[e].dl IN
          /\ ent' = [ent EXCEPT ![e].cost = cost, ![e].dl = d]
          /\ cop' = [cop EXCEPT ![c] = [code |-> "UPDATE", id |-> e, delta |-> cost - ent[e].cost,
                                        rs |-> (ttl > 0 /\ d # ent[e].dl), tag |-> nextTag]]
          /\ cpc' = [cpc EXCEPT ![c] = "send"]
          /\ nextTag' = nextTag + 1
          /\ UNCHANGED <<map, nextId, cnt>>
     ELSE /\ nextId <= MaxEnt
          /\ ent' = [ent EXCEPT ![nextId] = [NoEnt EXCEPT !.k = k, !.cost = cost,
                                                        !.dl = IF ttl > 0 THEN now + ttl ELSE 0]]
          /\ map' = [map EXCEPT ![k] = nextId]
          /\ nextId' = nextId + 1
          /\ cop' = [cop EXCEPT ![c] = [code |-> "NEW", id |-> nextId, delta |-> cost, rs |-> FALSE, tag |-> nextTag]]
          /\ cpc' = [cpc EXCEPT ![c] = "send"]
          /\ nextTag' = nextTag + 1
          /\ UNCHANGED cnt
  /\ UNCHANGED <<queue, MaintV, TickV, plock, wsize, now, cnow, closed, cancelled,
                 notif, nreason, left, need, applied, sentDone, bad>>

(* Client: Set refused up front (cost above MaxSize) or by the doorkeeper: returns false, stores nothing *)
SetRefused(c, k, cost) ==
  /\ CanStart(c, "set")
  /\ \/ cost > MaxSize
     \/ Door /\ map[k] = 0 /\ ~closed
  /\ cnt' = [cnt EXCEPT ![c] = @ + 1]
  /\ UNCHANGED <<map, ent, nextId, queue, MaintV, TickV, plock, wsize, now, cnow, cpc, cop, closed, cancelled, Ghosts>>

(* Client: Delete (phase 1) *)
DelMap(c, k) ==
  /\ CanStart(c, "del")
  /\ IF map[k] # 0 /\ ~closed
     THEN /\ map' = [map EXCEPT ![k] = 0]
          /\ left' = [left EXCEPT ![map[k]] = "REMOVED"]
          /\ cop' = [cop EXCEPT ![c] = [code |-> "REMOVE", id |-> map[k], delta |-> 0, rs |-> FALSE, tag |-> nextTag]]
          /\ cpc' = [cpc EXCEPT ![c] = "send"]
          /\ nextTag' = nextTag + 1
          /\ UNCHANGED cnt
     ELSE /\ cnt' = [cnt EXCEPT ![c] = @ + 1]
          /\ UNCHANGED <<map, left, cop, cpc, nextTag>>
  /\ UNCHANGED <<ent, nextId, queue, MaintV, TickV, plock, wsize, now, cnow, closed, cancelled,
                 notif, nreason, need, applied, sentDone, bad>>

(* Client: phase 2, the blocking send on the bounded write queue *)
Send(c) ==
  /\ cpc[c] = "send" /\ Len(queue) < QCap
  /\ queue' = Append(queue, cop[c])
  /\ cpc' = [cpc EXCEPT ![c] = "idle"] /\ cnt' = [cnt EXCEPT ![c] = @ + 1]
  /\ sentDone' = sentDone \cup {cop[c].tag}
  /\ UNCHANGED <<map, ent, nextId, MaintV, TickV, plock, wsize, now, cnow, cop, closed, cancelled,
                 notif, nreason, left, need, applied, nextTag, bad>>

\* repaired (D10a): a writer parked on the full queue returns when the store is cancelled
SendCancelled(c) ==
  /\ FixD10a /\ cpc[c] = "send" /\ cancelled
  /\ cpc' = [cpc EXCEPT ![c] = "idle"] /\ cnt' = [cnt EXCEPT ![c] = @ + 1]
  /\ UNCHANGED <<map, ent, nextId, queue, MaintV, TickV, plock, wsize, now, cnow, cop, closed, cancelled, Ghosts>>

(* Client: Get (shard read lock).  Three-way deadline test against the cached clock (M10). *)
Get(c, k) ==
  /\ CanStart(c, "get")
  /\ LET e == map[k]
         hit == /\ e # 0
                /\ \/ ent[e].dl = 0
                   \/ /\ ent[e].dl - cnow > 0
                      /\ (ent[e].dl - cnow < Thresh => ent[e].dl - now > 0)
     IN bad' = IF hit /\ ent[e].dl # 0 /\ ent[e].dl <= now
               THEN bad \cup {IF now - cnow >= Thresh THEN "C03_served_after_deadline_stale_clock" ELSE "C03_served_after_deadline"}
               ELSE bad
  /\ cnt' = [cnt EXCEPT ![c] = @ + 1]
  /\ UNCHANGED <<map, ent, nextId, queue, MaintV, TickV, plock, wsize, now, cnow, cpc, cop, closed, cancelled,
                 notif, nreason, left, need, applied, sentDone, nextTag>>

(* Client: Wait = marker through the queue, then receive on the shared wake-up channel *)
WaitSend(c) ==
  /\ CanStart(c, "wait") /\ Len(queue) < QCap
  /\ ~(FixD2 /\ cancelled)
  /\ queue' = Append(queue, [code |-> "WAIT", id |-> 0, delta |-> 0, rs |-> FALSE, tag |-> <<c, cnt[c]>>])
  /\ need' = [need EXCEPT ![c] = sentDone \ applied]
  /\ cpc' = [cpc EXCEPT ![c] = "waitrecv"]
  /\ UNCHANGED <<map, ent, nextId, MaintV, TickV, plock, wsize, now, cnow, cop, cnt, closed, cancelled,
                 notif, nreason, left, applied, sentDone, nextTag, bad>>

\* FixD2: Wait on a cancelled store returns at once
WaitCancelled(c) ==
  /\ FixD2 /\ cancelled
  /\ \/ CanStart(c, "wait")
     \/ cpc[c] = "waitrecv"
  /\ cpc' = [cpc EXCEPT ![c] = "idle"] /\ cnt' = [cnt EXCEPT ![c] = @ + 1]
  /\ UNCHANGED <<map, ent, nextId, queue, MaintV, TickV, plock, wsize, now, cnow, cop, closed, cancelled, Ghosts>>

Barrier(c) == IF need[c] \subseteq applied THEN bad ELSE bad \cup {"C20_barrier"}

\* pinned code: one wake-up per batch on a shared unbuffered channel, any receiver takes it
WakeShared(c) ==
  /\ ~FixD2 /\ mpc = "wake" /\ cpc[c] = "waitrecv"
  /\ cpc' = [cpc EXCEPT ![c] = "idle"] /\ cnt' = [cnt EXCEPT ![c] = @ + 1]
  /\ bad' = Barrier(c)
  /\ mpc' = "unlock" /\ hadWait' = {}
  /\ UNCHANGED <<map, ent, nextId, mnew, queue, batch, mpend, evicting, TickV, plock, wsize, now, cnow, cop, closed, cancelled,
                 notif, nreason, left, need, applied, sentDone, nextTag>>

\* repaired: the maintenance loop closes the channel of every marker of the batch
WakeOwn ==
  /\ FixD2 /\ mpc = "wake"
  /\ LET woken == {c \in Clients : cpc[c] = "waitrecv" /\ <<c, cnt[c]>> \in hadWait} IN
     /\ cpc' = [c \in Clients |-> IF c \in woken THEN "idle" ELSE cpc[c]]
     /\ cnt' = [c \in Clients |-> IF c \in woken THEN cnt[c] + 1 ELSE cnt[c]]
     /\ bad' = IF \A c \in woken : need[c] \subseteq applied THEN bad ELSE bad \cup {"C20_barrier"}
  /\ mpc' = "unlock" /\ hadWait' = {}
  /\ UNCHANGED <<map, ent, nextId, mnew, queue, batch, mpend, evicting, TickV, plock, wsize, now, cnow, cop, closed, cancelled,
                 notif, nreason, left, need, applied, sentDone, nextTag>>

(* Client: Close = close every shard (write locks), then cancel under the policy lock *)
CloseShards(c) ==
  /\ CanStart(c, "close")
  /\ closed' = TRUE /\ map' = [k \in Keys |-> 0]
  /\ cpc' = [cpc EXCEPT ![c] = "closing"]
  /\ UNCHANGED <<ent, nextId, queue, MaintV, TickV, plock, wsize, now, cnow, cop, cnt, cancelled, Ghosts>>

CloseCancel(c) ==
  /\ cpc[c] = "closing" /\ plock = "free"
  /\ cancelled' = TRUE
  /\ cpc' = [cpc EXCEPT ![c] = "idle"] /\ cnt' = [cnt EXCEPT ![c] = @ + 1]
  /\ UNCHANGED <<map, ent, nextId, queue, MaintV, TickV, plock, wsize, now, cnow, cop, closed, Ghosts>>

-----------------------------------------------------------------------------
(* Maintenance goroutine *)
TakeBatch(n) ==
  /\ mpc = "top" /\ n >= 1 /\ n <= Min(Len(queue), BatchMax)
  /\ batch' = SubSeq(queue, 1, n) /\ queue' = SubSeq(queue, n + 1, Len(queue))
  /\ mpc' = "prelock"
  /\ UNCHANGED <<map, ent, nextId, mnew, hadWait, mpend, evicting, TickV, plock, wsize, now, cnow, CliV, closed, cancelled, Ghosts>>

\* select{} with the cancellation ready: may exit even when items are queued (M11)
MExit ==
  /\ mpc = "top" /\ cancelled
  /\ mpc' = "exited"
  /\ UNCHANGED <<map, ent, nextId, mnew, queue, batch, hadWait, mpend, evicting, TickV, plock, wsize, now, cnow, CliV, closed, cancelled, Ghosts>>

MLock ==
  /\ mpc = "prelock" /\ plock = "free"
  /\ plock' = "m" /\ mpc' = "apply"
  /\ UNCHANGED <<map, ent, nextId, mnew, queue, batch, hadWait, mpend, evicting, TickV, wsize, now, cnow, CliV, closed, cancelled, Ghosts>>

\* sinkWrite(item) up to its first call of removeEntry / the eviction loop
ApplyHead ==
  /\ mpc = "apply" /\ batch # <<>> /\ mpend = None /\ ~evicting
  /\ LET it == Head(batch)  e == it.id IN
     /\ batch' = Tail(batch)
     /\ IF it.code = "WAIT"
        THEN /\ hadWait' = hadWait \cup {it.tag}
             /\ UNCHANGED <<ent, mpend, evicting, wsize, applied>>
        ELSE
        /\ applied' = applied \cup {it.tag}
        /\ UNCHANGED hadWait
        /\ IF ent[e].dd
           THEN UNCHANGED <<ent, mpend, evicting, wsize>>
           ELSE IF ent[e].rm /\ it.code # "NEW" /\ ~(FixD6 /\ it.code = "REMOVE")
           THEN /\ ent' = [ent EXCEPT ![e].dd = (it.code = "REMOVE")]
                /\ UNCHANGED <<mpend, evicting, wsize>>
           ELSE CASE it.code = "NEW" ->
                     IF ent[e].dl # 0 /\ ent[e].dl <= now
                     THEN /\ ent' = [ent EXCEPT ![e].rm = FALSE]
                          /\ mpend' = <<e, "EXPIRED", "in">>
                          /\ UNCHANGED <<evicting, wsize>>
                     ELSE /\ ent' = [ent EXCEPT ![e].rm = FALSE, ![e].sc = (ent[e].dl # 0) \/ @,
                                                ![e].pw = @ + it.delta, ![e].tr = TRUE]
                          /\ wsize' = wsize + ent[e].pw + it.delta
                          /\ evicting' = TRUE
                          /\ UNCHANGED mpend
                  [] it.code = "REMOVE" ->
                     /\ ent' = [ent EXCEPT ![e].dd = TRUE]
                     /\ mpend' = <<e, "REMOVED", "in">>
                     /\ UNCHANGED <<evicting, wsize>>
                  [] it.code = "UPDATE" ->
                     LET npw == ent[e].pw + it.delta IN
                     \* create/update race: the weight is remembered, the insert event schedules the entry when it
                     \* arrives (D22: an untracked entry is not linked into the wheel by an UPDATE - with the entry
                     \* pool it may be a free object by now)
                     IF ~ent[e].tr
                     THEN /\ ent' = [ent EXCEPT ![e].pw = npw]
                          /\ UNCHANGED <<mpend, evicting, wsize>>
                     ELSE IF it.delta = 0
                     THEN /\ ent' = [ent EXCEPT ![e].sc = it.rs \/ @]
                          /\ UNCHANGED <<mpend, evicting, wsize>>
                     ELSE IF npw > MaxSize
                     THEN /\ ent' = [ent EXCEPT ![e].pw = npw, ![e].sc = it.rs \/ @, ![e].tr = FALSE]
                          /\ wsize' = wsize + it.delta - npw
                          /\ mpend' = <<e, "EVICTED", "in">>
                          /\ evicting' = TRUE
                     ELSE /\ ent' = [ent EXCEPT ![e].pw = npw, ![e].sc = it.rs \/ @]
                          /\ wsize' = wsize + it.delta
                          /\ evicting' = Over(wsize + it.delta)
                          /\ UNCHANGED mpend
  /\ mnew' = (LET it == Head(batch) IN
              IF it.code = "NEW" /\ ~ent[it.id].dd /\ ent[it.id].dl # 0 /\ ent[it.id].dl <= now THEN it.delta ELSE mnew)
  /\ UNCHANGED <<map, nextId, queue, mpc, TickV, plock, now, cnow, CliV, closed, cancelled,
                 notif, nreason, left, need, sentDone, nextTag, bad>>

\* EvictEntries: one victim leaves the policy (policy.Remove) and is handed to removeEntry
EvPick(e) ==
  /\ mpc = "apply" /\ evicting /\ mpend = None /\ Over(wsize) /\ ent[e].tr
  /\ ent' = [ent EXCEPT ![e].tr = FALSE]
  /\ wsize' = wsize - ent[e].pw
  /\ mpend' = <<e, "EVICTED", "in">>
  /\ bad' = IF wsize <= MaxSize THEN bad \cup {"C06_evict_under_capacity"} ELSE bad
  /\ UNCHANGED <<map, nextId, mnew, queue, batch, hadWait, mpc, evicting, TickV, plock, now, cnow, CliV, closed, cancelled,
                 notif, nreason, left, need, applied, sentDone, nextTag>>

EvDone ==
  /\ mpc = "apply" /\ evicting /\ mpend = None /\ (~Over(wsize) \/ Tracked = {})
  /\ evicting' = FALSE
  /\ UNCHANGED <<map, ent, nextId, mnew, queue, batch, hadWait, mpc, mpend, TickV, plock, wsize, now, cnow, CliV, closed, cancelled, Ghosts>>

\* removeEntry(entry, reason), split at the verif hook points RemoveIn / Recheck.
\* who = "m" (maintenance) or "t" (ticker); the pending removal is mpend / tpend.
\* RmFinal: the part after the re-check: leave policy and wheel, then by reason either remove
\* the map slot by identity (notify iff removed) or, for REMOVED, notify.
RmFinal(e, reason) ==
  LET k == ent[e].k
      inmap == (map[k] = e) IN
  /\ ent' = [ent EXCEPT ![e].tr = FALSE, ![e].sc = FALSE, ![e].rm = TRUE,
                        ![e].dd = IF reason = "REMOVED" THEN TRUE ELSE @]
  /\ wsize' = IF ent[e].tr THEN wsize - ent[e].pw ELSE wsize
  /\ IF reason = "REMOVED"
     THEN /\ notif' = [notif EXCEPT ![e] = @ + 1] /\ nreason' = [nreason EXCEPT ![e] = "REMOVED"]
          /\ UNCHANGED <<map, left>>
     ELSE IF inmap
     THEN /\ map' = [map EXCEPT ![k] = 0]
          /\ left' = [left EXCEPT ![e] = reason]
          /\ notif' = [notif EXCEPT ![e] = @ + 1] /\ nreason' = [nreason EXCEPT ![e] = reason]
     ELSE UNCHANGED <<map, left, notif, nreason>>
  \* C04 (lower bound): a slot removed for expiry belongs to an entry whose deadline has passed
  /\ bad' = IF reason = "EXPIRED" /\ inmap /\ ent[e].dl > now THEN bad \cup {"expired_before_deadline"} ELSE bad

Pend(who) == IF who = "m" THEN mpend ELSE tpend
SetPend(who, v) == IF who = "m" THEN mpend' = v /\ UNCHANGED tpend ELSE tpend' = v /\ UNCHANGED mpend

RmIn(who) ==
  LET e == Pend(who)[1]  reason == Pend(who)[2] IN
  /\ plock = who /\ Pend(who) # None /\ Pend(who)[3] = "in"
  /\ IF reason = "EXPIRED"
     THEN /\ ent' = [ent EXCEPT ![e].rm = IF FixD7 THEN @ ELSE TRUE]     \* pinned: flag first (D7)
          /\ SetPend(who, <<e, reason, "recheck">>)
          /\ UNCHANGED <<map, wsize, notif, nreason, left, bad>>
     ELSE /\ RmFinal(e, reason)
          /\ SetPend(who, None)
  /\ UNCHANGED <<nextId, mnew, queue, batch, hadWait, mpc, evicting, tpc, tnow, plock, now, cnow, CliV, closed, cancelled,
                 need, applied, sentDone, nextTag>>

RmRecheck(who) ==
  LET e == Pend(who)[1]  reason == Pend(who)[2]
      fromNew == who = "m" /\ mnew # 0 IN
  /\ plock = who /\ Pend(who) # None /\ Pend(who)[3] = "recheck"
  /\ IF ent[e].dl > now
     THEN \* entry was updated meanwhile: abort.  Pinned: flag stays set, entry stays off the wheel
          \* (and a NEW event is dropped).  Repaired: back on the wheel, the NEW event carries on.
          IF FixD7 /\ fromNew
          THEN /\ ent' = [ent EXCEPT ![e].sc = TRUE, ![e].pw = @ + mnew, ![e].tr = TRUE]
               /\ wsize' = wsize + ent[e].pw + mnew
               /\ evicting' = TRUE
               /\ SetPend(who, None) /\ mnew' = IF who = "m" THEN 0 ELSE mnew
               /\ UNCHANGED <<map, notif, nreason, left, bad>>
          ELSE /\ ent' = [ent EXCEPT ![e].sc = IF FixD7 THEN TRUE ELSE @]
               /\ SetPend(who, None) /\ mnew' = IF who = "m" THEN 0 ELSE mnew
               /\ UNCHANGED <<map, wsize, notif, nreason, left, evicting, bad>>
     ELSE IF FixD20
     THEN \* decided and removed within one shard critical section
          /\ RmFinal(e, reason) /\ UNCHANGED evicting
          /\ SetPend(who, None) /\ mnew' = IF who = "m" THEN 0 ELSE mnew
     ELSE \* the code before the repair D20: the comparison is made without the shard lock, the slot is removed in a
          \* later critical section (RmDelete) - a SetWithTTL of the key can come in between
          /\ SetPend(who, <<e, reason, "delete">>)
          /\ UNCHANGED <<map, ent, wsize, notif, nreason, left, evicting, bad, mnew>>
  /\ UNCHANGED <<nextId, queue, batch, hadWait, mpc, tpc, tnow, plock, now, cnow, CliV, closed, cancelled,
                 need, applied, sentDone, nextTag>>

RmDelete(who) ==
  LET e == Pend(who)[1]  reason == Pend(who)[2] IN
  /\ plock = who /\ Pend(who) # None /\ Pend(who)[3] = "delete"
  /\ RmFinal(e, reason)
  /\ SetPend(who, None)
  /\ mnew' = IF who = "m" THEN 0 ELSE mnew
  /\ UNCHANGED <<nextId, queue, batch, hadWait, mpc, evicting, tpc, tnow, plock, now, cnow, CliV, closed, cancelled,
                 need, applied, sentDone, nextTag>>

EndBatch ==
  /\ mpc = "apply" /\ batch = <<>> /\ mpend = None /\ ~evicting
  /\ mpc' = IF hadWait # {} THEN "wake" ELSE "unlock"
  /\ UNCHANGED <<map, ent, nextId, mnew, queue, batch, hadWait, mpend, evicting, TickV, plock, wsize, now, cnow, CliV, closed, cancelled, Ghosts>>

MUnlock ==
  /\ mpc = "unlock"
  /\ plock' = "free" /\ mpc' = "top"
  /\ UNCHANGED <<map, ent, nextId, mnew, queue, batch, hadWait, mpend, evicting, TickV, wsize, now, cnow, CliV, closed, cancelled, Ghosts>>

-----------------------------------------------------------------------------
(* Ticker goroutine *)
TickLock ==
  /\ WithTicker /\ tpc = "idle" /\ plock = "free"
  /\ cnow' = now                                 \* refreshed only after the lock is taken (M9)
  /\ IF cancelled
     THEN tpc' = "exited" /\ UNCHANGED <<plock, tnow>>
     ELSE plock' = "t" /\ tpc' = "adv" /\ tnow' = now
  /\ UNCHANGED <<map, ent, nextId, queue, MaintV, tpend, wsize, now, CliV, closed, cancelled, Ghosts>>

\* the wheel visits a scheduled entry whose deadline has passed: de-schedules it, calls remove()
ExpPick(e) ==
  /\ tpc = "adv" /\ tpend = None /\ ent[e].sc /\ ent[e].dl <= tnow
  /\ ent' = [ent EXCEPT ![e].sc = FALSE]
  /\ tpend' = <<e, "EXPIRED", "in">>
  /\ UNCHANGED <<map, nextId, queue, MaintV, tpc, tnow, plock, wsize, now, cnow, CliV, closed, cancelled, Ghosts>>

TickUnlock ==
  /\ tpc = "adv" /\ tpend = None
  /\ plock' = "free" /\ tpc' = "idle"
  /\ UNCHANGED <<map, ent, nextId, queue, MaintV, tpend, tnow, wsize, now, cnow, CliV, closed, cancelled, Ghosts>>

\* With the ticker running, the cached clock is refreshed every time unit unless the ticker is
\* kept waiting for the policy lock: time runs ahead of the cached clock only during such a stall.
Advance(d) ==
  /\ now + d <= MaxTime
  /\ (WithTicker /\ StallOnly) => (cnow = now \/ plock # "free")
  /\ now' = now + d
  \* a jump of several units with a free-running ticker: it fired during the jump (its expiry work is
  \* covered by the optional ExpPick steps that follow); the cached clock lags by at most one unit
  /\ cnow' = IF WithTicker /\ StallOnly /\ plock = "free" /\ tpc = "idle" /\ d > 1 THEN now + d - 1 ELSE cnow
  /\ UNCHANGED <<map, ent, nextId, queue, MaintV, TickV, plock, wsize, CliV, closed, cancelled, Ghosts>>

-----------------------------------------------------------------------------
AllDone == \A c \in Clients : cpc[c] = "idle" /\ (cnt[c] = OpsPerClient \/ Allowed[c] = {})
Quiescent == /\ \A c \in Clients : cpc[c] = "idle"
             /\ queue = <<>> /\ batch = <<>> /\ mpc = "top" /\ tpc = "idle" /\ plock = "free"

\* stuttering once everything is finished, so that TLC's deadlock check means "a call never returns"
Finished == AllDone /\ UNCHANGED vars

Next ==
  \/ \E c \in Clients, k \in Keys, cost \in Costs, ttl \in TTLs : SetMap(c, k, cost, ttl)
  \/ \E c \in Clients, k \in Keys, cost \in Costs : SetRefused(c, k, cost)
  \/ \E c \in Clients, k \in Keys : DelMap(c, k) \/ Get(c, k)
  \/ \E c \in Clients : Send(c) \/ SendCancelled(c) \/ WaitSend(c) \/ WakeShared(c) \/ WaitCancelled(c) \/ CloseShards(c) \/ CloseCancel(c)
  \/ WakeOwn
  \/ \E n \in 1..BatchMax : TakeBatch(n)
  \/ MExit \/ MLock \/ ApplyHead \/ EvDone \/ EndBatch \/ MUnlock
  \/ \E e \in Ids : EvPick(e) \/ ExpPick(e)
  \/ RmIn("m") \/ RmRecheck("m") \/ RmIn("t") \/ RmRecheck("t") \/ RmDelete("m") \/ RmDelete("t")
  \/ TickLock \/ TickUnlock
  \/ \E d \in AdvSteps : Advance(d)
  \/ Finished

Spec == Init /\ [][Next]_vars
FairSpec == Spec /\ WF_vars(Next)

-----------------------------------------------------------------------------
(* Properties *)

TypeOK == /\ \A k \in Keys : map[k] \in 0..MaxEnt
          /\ nextId \in 1..(MaxEnt + 1)
          /\ Len(queue) <= QCap /\ Len(batch) <= BatchMax

\* C02: once writes have drained, resident cost = policy total <= MaxSize, tracked = resident,
\* policy-side cost = API-side cost, entries with a deadline are on the wheel
AcctInv ==
  (Quiescent /\ ~closed) =>
     /\ Tracked = Resident
     /\ wsize = SumCost(Resident) /\ wsize <= MaxSize
     /\ \A e \in Resident : ent[e].pw = ent[e].cost /\ (ent[e].dl # 0 => ent[e].sc)

\* C02 (in flight): resident entries the policy does not know yet are bounded by queue + batch + writers in phase 2
InFlightBound ==
  ~closed => Cardinality(Resident \ Tracked) <= Len(queue) + Len(batch) + Cardinality({c \in Clients : cpc[c] = "send"}) + 1

\* C05: at most one notification per incarnation, only after it left, with the reason of whoever removed the slot
NotifInv ==
  \A e \in Ids : /\ notif[e] <= 1
                 /\ notif[e] = 1 => (left[e] # "none" /\ nreason[e] = left[e])
\* ... and exactly one once writes have drained: stored = resident + notified
NotifComplete ==
  (Quiescent /\ ~closed) => \A e \in 1..(nextId - 1) : (e \in Resident) # (notif[e] = 1)

\* ghost verdicts raised inside actions (C03 served after deadline, C06 eviction under capacity, C20 barrier)
NoBad == bad = {}
NoBadC03 == "C03_served_after_deadline" \notin bad /\ "C03_served_after_deadline_stale_clock" \notin bad
\* what holds of the code as it is: a late hit needs a cached clock older than the look-ahead (D9)
NoBadC03Fresh == "C03_served_after_deadline" \notin bad
NoBadC06 == "C06_evict_under_capacity" \notin bad
NoBadC04 == "expired_before_deadline" \notin bad
NoBadC20 == "C20_barrier" \notin bad

\* C10/C20: every call returns (under fairness)
Termination == <>AllDone
=============================================================================
