---------------------------- MODULE TinyLfuCaps ----------------------------
(* The capacity arithmetic of the hill climber (internal/tlfu.go climb, resizeWindow) for     *)
(* UNBOUNDED integers: the window and protected capacities after any number of climbs with     *)
(* any step the float arithmetic may produce.  Checked with Apalache as an inductive           *)
(* invariant (Init => IndInv, IndInv /\ Next => IndInv'), which TLC's bounded runs of          *)
(* TinyLfu.tla cannot give.                                                                    *)
(*   climb():        amount := any integer (float step truncated), clamped to                  *)
(*                   amount <= capT (protected may reach 0) and amount >= -(capW - 1)          *)
(*   resizeWindow(): capW += amount; capT -= amount; entries are moved while they fit; the      *)
(*                   part of the amount that could not be moved (0 <= remain <= |amount|,       *)
(*                   same sign) is given back: capW -= remain; capT += remain                  *)
(* Total = capW + capT is fixed when the policy is created (window 1%, at least 1).             *)
EXTENDS Integers

CONSTANT
  \* @type: Int;
  Total
ASSUME Total >= 1
CInit == Total \in Nat /\ Total >= 1      \* Apalache: any total capacity

VARIABLES
  \* @type: Int;
  capW,
  \* @type: Int;
  capT,
  \* @type: Int;
  amount,
  \* @type: Str;
  pc

vars == <<capW, capT, amount, pc>>

Init == /\ capW \in 1..Total /\ capT = Total - capW /\ amount = 0 /\ pc = "idle"

Clamp(a) == IF a > 0 /\ a > capT THEN capT
            ELSE IF a < 0 /\ -a > capW - 1 THEN -(capW - 1)
            ELSE a

Climb == /\ pc = "idle"
         /\ \E a \in Int : amount' = Clamp(a)
         /\ pc' = "resize" /\ UNCHANGED <<capW, capT>>

\* capacities applied, entries not yet moved
Apply == /\ pc = "resize"
         /\ capW' = capW + amount /\ capT' = capT - amount
         /\ pc' = "move" /\ UNCHANGED amount

\* increaseWindow / decreaseWindow return what they could not move
GiveBack == /\ pc = "move"
            /\ \E r \in Int :
                 /\ IF amount >= 0 THEN 0 <= r /\ r <= amount ELSE amount <= r /\ r <= 0
                 /\ capW' = capW - r /\ capT' = capT + r /\ amount' = r
            /\ pc' = "idle"

Next == Climb \/ Apply \/ GiveBack
Spec == Init /\ [][Next]_vars

\* what C07 states about the capacities
CapsOK == pc = "idle" => (capW >= 1 /\ capT >= 0 /\ capW + capT = Total)

\* inductive strengthening: also in the middle of a resize the sum is kept and the pending amount is within the clamp
IndInv ==
  /\ pc \in {"idle", "resize", "move"}
  /\ capW + capT = Total
  /\ pc = "idle" => capW >= 1 /\ capT >= 0
  /\ pc = "resize" => capW >= 1 /\ capT >= 0 /\ amount <= capT /\ -amount <= capW - 1
  /\ pc = "move" => capW >= 1 /\ capT >= 0 /\ (amount >= 0 => capW - amount >= 1) /\ (amount < 0 => capT + amount >= 0)
\* Apalache: an arbitrary state satisfying the invariant
IndInit == /\ capW \in Int /\ capT \in Int /\ amount \in Int /\ pc \in {"idle", "resize", "move"}
           /\ IndInv
=============================================================================
