SPECIFICATION TraceSpec
CONSTANTS
  Buckets <- ScaledBuckets
  Shift <- ScaledShift
  Spans <- ScaledSpans
  Entries = {1,2,3,4,5,6,7,8,9,10,11,12}
  Fixed = TRUE
