SPECIFICATION TraceSpec
