SPECIFICATION SimSpec
CONSTANTS
  Depth = 60
  NKeys = 5
CONSTRAINT Export
