SPECIFICATION TraceSpec
CONSTANTS
  Buckets <- RealBuckets
  Shift <- RealShift
  Spans <- RealSpans
  Entries = {1,2,3,4,5,6,7,8,9,10,11,12}
  Fixed = TRUE
