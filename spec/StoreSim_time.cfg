SPECIFICATION SimSpec
CONSTANTS
  Keys = {1, 2}
  Clients = {1, 2}
  MaxSize = 2
  Costs = {1, 2, 3}
  TTLs = {1, 2, 29, 30}
  QCap = 2
  BatchMax = 2
  MaxEnt = 9
  MaxTime = 40
  OpsPerClient = 4
  Allowed <- AllowTime
  WithTicker = TRUE
  Thresh = 28
  AdvSteps = {1, 2, 27, 28, 29}
  StallOnly = TRUE
  Door = FALSE
  FixD2 = TRUE
  FixD6 = TRUE
  FixD7 = TRUE
  FixD16 = TRUE
  FixD10a = TRUE
  FixD20 = TRUE
  Depth = 70
  Gates <- GatesAll
  Shift = 30
  Start = 3
  MaxTicks = 6
CONSTRAINT Export
