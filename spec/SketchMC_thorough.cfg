SPECIFICATION MCSpec
CONSTANTS
  SampleScaled = 6
  MaxOps = 9
INVARIANTS NeverUnder AdditionsBelowSample InRange KeysOK
PROPERTY NeverShrinks
