----------------------------- MODULE RBMutexIndBig -----------------------------
(* Inductive invariant of RBMutex.tla, checked with Apalache:                                  *)
(*   Init => IndInv,   IndInv /\ Next => IndInv',   IndInv => Mutex                              *)
(* for constants larger than TLC can enumerate (the check ranges over ALL states that satisfy    *)
(* IndInv, not over the reachable ones).                                                         *)
EXTENDS RBMutex

CInit == /\ Readers = {"r1_OF_PROC", "r2_OF_PROC", "r3_OF_PROC", "r4_OF_PROC", "r5_OF_PROC", "r6_OF_PROC"}
         /\ Writers = {"w1_OF_PROC", "w2_OF_PROC", "w3_OF_PROC"}
         /\ NS = 4 /\ Recheck = TRUE /\ Revoke = TRUE /\ Rollback = TRUE

PCs == {"idle", "r_bias", "t_bias", "r_load", "t_load", "r_cas", "t_cas", "r_re", "t_re", "r_back", "t_back",
        "r_slow", "t_slow", "s_bias", "s_set", "rcs", "w_bias", "y_bias", "w_clear", "y_clear", "w_spin", "y_scan",
        "y_back", "y_unl", "wcs"}
RPCs == {"idle", "r_bias", "t_bias", "r_load", "t_load", "r_cas", "t_cas", "r_re", "t_re", "r_back", "t_back",
         "r_slow", "t_slow", "s_bias", "s_set", "rcs"}
WPCs == {"idle", "w_bias", "y_bias", "w_clear", "y_clear", "w_spin", "y_scan", "y_back", "y_unl", "wcs"}
Holding == {"w_bias", "y_bias", "w_clear", "y_clear", "w_spin", "y_scan", "y_back", "y_unl", "wcs"}
Revoking == {"w_spin", "y_scan", "y_back"}
MaxR == 6

TypeOK ==
  /\ rbias \in {0, 1}
  /\ slots \in [Slots -> 0..MaxR]
  /\ rwR \in 0..MaxR /\ rwW \in BOOLEAN /\ inh \in BOOLEAN
  /\ pc \in [Procs -> PCs]
  /\ base \in [Procs -> Slots] /\ idx \in [Procs -> Slots] /\ val \in [Procs -> 0..MaxR]
  /\ tok \in [Procs -> (-1)..3]

FastIn(p) == pc[p] = "rcs" /\ tok[p] >= 0

IndInv ==
  /\ TypeOK
  /\ \A p \in Readers : pc[p] \in RPCs
  /\ \A p \in Writers : pc[p] \in WPCs
  /\ Counts
  /\ \A p \in Readers : pc[p] = "s_set" => tok[p] = -1
  \* the RWMutex: one holder in write mode, and then nobody in read mode
  /\ \A p, q \in Writers : (pc[p] \in Holding /\ pc[q] \in Holding) => p = q
  /\ rwW => rwR = 0
  \* a writer past the clearing store keeps the bias off until it rolls it back
  /\ \A p \in Writers : pc[p] \in {"w_spin", "y_scan", "y_back", "wcs"} => rbias = 0
  \* slots already passed by the revoking writer hold no fast reader
  /\ \A p \in Writers : pc[p] \in {"w_spin", "y_scan"} => \A q \in Readers : FastIn(q) => tok[q] >= idx[p]
  \* bias off and nobody revoking: every fast reader has left
  /\ (rbias = 0 /\ \A p \in Writers : pc[p] \notin Revoking) => \A q \in Readers : ~FastIn(q)

IndInit == TypeOK /\ IndInv
=============================================================================
