SPECIFICATION MCSpec
CONSTANTS
  SampleScaled = 6
  MaxOps = 7
INVARIANTS NeverUnder AdditionsBelowSample InRange KeysOK
PROPERTY NeverShrinks
