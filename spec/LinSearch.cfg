SPECIFICATION Spec
POSTCONDITION Post
CHECK_DEADLOCK FALSE
