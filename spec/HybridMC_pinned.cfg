SPECIFICATION Spec
CONSTANTS
  Keys = {1, 2}
  MaxVal = 3
  MaxTime = 2
  TTLs = {0, 1}
  FixB = FALSE
  FixC = FALSE
  FixD = FALSE
  FixE = TRUE
INVARIANTS Fresh Demoted ClosedQuiet
