------------------------------ MODULE RealTick ------------------------------
(* C04 in real time (no virtual clock, the code's own ticker): for every entry set with a  *)
(* TTL on an otherwise untouched store the harness logs when Set returned, the TTL, and    *)
(* when the removal listener was told EXPIRED.  Bound of the property: one tick of the     *)
(* finest wheel (2^30 ns) plus one maintenance period (1 s); Slack covers goroutine        *)
(* scheduling on a loaded machine and the millisecond rounding of the log.                 *)
EXTENDS Integers, Sequences, TLC, Json, IOUtils
CONSTANTS WheelTickMs, PeriodMs, SlackMs
Trace == ndJsonDeserialize(IOEnv.VERIF_TRACE)
VARIABLES i, tid, viol, n, done
vars == <<i, tid, viol, n, done>>
Ev == Trace[i]
Init == i = 1 /\ tid = 0 /\ viol = {} /\ n = 0 /\ done = FALSE
Bound == WheelTickMs + PeriodMs + SlackMs
New == /\ i <= Len(Trace) /\ Ev.op = "new" /\ tid' = Ev.id /\ i' = i + 1 /\ UNCHANGED <<viol, n, done>>
Entry ==
  /\ i <= Len(Trace) /\ Ev.op = "entry" /\ i' = i + 1 /\ n' = n + 1
  /\ viol' = viol
       \cup (IF Ev.seen = 1 THEN {} ELSE {<<tid, i, "entry_with_deadline_never_reported_expired">>})
       \cup (IF Ev.seen = 1 /\ Ev.reason # 2 THEN {<<tid, i, "entry_with_deadline_left_with_another_reason">>} ELSE {})
       \* the deadline is taken from the clock read inside Set, which lies before Set's return: an expiry up
       \* to the duration of the Set call before "return time + TTL" is not early
       \cup (IF Ev.seen = 1 /\ Ev.late_ms < 0 - SlackMs THEN {<<tid, i, "reported_expired_before_its_deadline">>} ELSE {})
       \cup (IF Ev.seen = 1 /\ Ev.late_ms > Bound THEN {<<tid, i, "reclaimed_later_than_one_wheel_tick_plus_one_maintenance_period_after_its_deadline">>} ELSE {})
  /\ UNCHANGED <<tid, done>>
Finish ==
  /\ i = Len(Trace) + 1 /\ ~done /\ done' = TRUE
  /\ JsonSerialize(IOEnv.VERIF_RESULT, [lines |-> Len(Trace), consumed |-> i - 1, entries |-> n, viol |-> viol])
  /\ UNCHANGED <<i, tid, viol, n>>
Next == New \/ Entry \/ Finish
Spec == Init /\ [][Next]_vars
=============================================================================
