SPECIFICATION TraceSpec
CONSTANTS
  BlockMax = 1000000
  RequireMeta = TRUE
