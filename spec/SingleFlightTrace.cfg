SPECIFICATION TraceSpec
