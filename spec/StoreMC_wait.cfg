SPECIFICATION Spec
CONSTANTS
  Keys = {1}
  Clients = {1, 2, 3}
  MaxSize = 1
  Costs = {1}
  TTLs = {0}
  QCap = 2
  BatchMax = 2
  MaxEnt = 2
  MaxTime = 1
  OpsPerClient = 2
  Allowed <- AllowWait
  WithTicker = FALSE
  Thresh = 30
  AdvSteps = {1}
  StallOnly = FALSE
  Door = FALSE
  FixD2 = TRUE
  FixD6 = TRUE
  FixD7 = TRUE
  FixD16 = TRUE
  FixD10a = TRUE
  FixD20 = TRUE
VIEW view
INVARIANTS TypeOK NoBadC20 NotifInv
CHECK_DEADLOCK TRUE
