SPECIFICATION TraceSpec
