SPECIFICATION SimSpec
CONSTANTS
  Ents = {1, 2, 3, 4, 5, 6, 7, 8}
  NLists = 5
  LType <- SimLType
  Weights = {1, 2, 5}
  OtherEnts = {1, 2, 3}
  Depth = 81
CONSTRAINT Export
CHECK_DEADLOCK FALSE
