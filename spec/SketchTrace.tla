----------------------------- MODULE SketchTrace -----------------------------
(* Trace validation for C17: steps of the real CountMinSketch with the index tuples the   *)
(* code computed, the counter values it holds afterwards, its estimate and bookkeeping.   *)
(* The specification evolves its own sparse table; the state follows the implementation.  *)
EXTENDS Sketch, Json, IOUtils

Trace == ndJsonDeserialize(IOEnv.VERIF_TRACE)

VARIABLES l, tid, viol, div, nres, done
tvars == <<svars, l, tid, viol, div, nres, done>>

Ev == Trace[l]
TraceInit == tbl = <<>> /\ len = 16 /\ sample = 160 /\ additions = 0 /\ rec = <<>>
             /\ l = 1 /\ tid = 0 /\ viol = {} /\ div = 0 /\ nres = 0 /\ done = FALSE
Step == l <= Len(Trace) /\ l' = l + 1 /\ UNCHANGED done

Key(e) == << <<e.k[1][1], e.k[1][2]>>, <<e.k[2][1], e.k[2][2]>>, <<e.k[3][1], e.k[3][2]>>, <<e.k[4][1], e.k[4][2]>> >>

\* table after the step: logged values at the key's positions, specification elsewhere
Follow(t, k, vals) ==
  [p \in DOMAIN t \cup PosSet(k) |->
     IF \E i \in 1..4 : k[i] = p THEN vals[CHOOSE i \in 1..4 : k[i] = p] ELSE Val(t, p)]

KeyViol(k) == IF WellFormed(k, len) THEN {} ELSE {<<tid, l, "index">>}

TrNew ==
  /\ Step /\ Ev.op = "new"
  /\ tbl' = <<>> /\ rec' = <<>> /\ len' = Ev.len /\ sample' = Ev.sample /\ additions' = Ev.additions
  /\ tid' = Ev.id
  /\ viol' = viol \cup (IF Ev.sample = 10 * Ev.len /\ Ev.additions = 0 THEN {} ELSE {<<Ev.id, l, "new">>})
  /\ UNCHANGED <<div, nres>>

TrAdd ==
  /\ Step /\ Ev.op = "add"
  /\ LET k == Key(Ev)
         t1 == IncAll(tbl, k)
         a1 == IF Added(tbl, k) THEN additions + 1 ELSE additions
         expReset == Added(tbl, k) /\ a1 = sample
         expT == IF expReset THEN Halved(t1) ELSE t1
         expA == IF expReset THEN ResetAdditions(a1, t1) ELSE a1
         actT == Follow(IF Ev.didreset THEN Halved(t1) ELSE t1, k, Ev.vals)
         r1 == Min2(15, RecOf(k) + 1)
         newRec == IF Ev.didreset
                   THEN [x \in DOMAIN rec \cup {k} |-> (IF x = k THEN r1 ELSE rec[x]) \div 2]
                   ELSE RecSet(k, r1)
         under == \E i \in 1..4 : Ev.vals[i] < Val(expT, k[i])
     IN
     /\ tbl' = actT
     /\ additions' = Ev.additions
     /\ rec' = newRec
     /\ nres' = nres + (IF Ev.didreset THEN 1 ELSE 0)
     /\ div' = div + (IF actT = expT /\ Ev.additions = expA /\ Ev.didreset = expReset THEN 0 ELSE 1)
     /\ viol' = viol \cup KeyViol(k)
          \cup (IF Ev.est >= Min2(15, newRec[k]) THEN {} ELSE {<<tid, l, "undercount">>})
          \cup (IF Ev.est = MinOf({Ev.vals[i] : i \in 1..4}) THEN {} ELSE {<<tid, l, "estimate">>})
          \cup (IF Ev.additions < sample THEN {} ELSE {<<tid, l, "additions">>})
          \cup (IF expReset /\ ~Ev.didreset THEN {<<tid, l, "noreset">>} ELSE {})
          \cup (IF Ev.didreset /\ under THEN {<<tid, l, "halve">>} ELSE {})
          \cup (IF ~Ev.didreset /\ under THEN {<<tid, l, "inc">>} ELSE {})
          \cup (IF Ev.len = len THEN {} ELSE {<<tid, l, "len">>})
  /\ UNCHANGED <<len, sample, tid>>

TrAddn ==
  /\ Step /\ Ev.op = "addn"
  /\ LET k == Key(Ev)
         expT == IncN(tbl, k, Ev.n)
         actT == Follow(expT, k, Ev.vals)
         newRec == RecSet(k, Min2(15, RecOf(k) + Ev.n))
     IN
     /\ tbl' = actT
     /\ additions' = Ev.additions
     /\ rec' = newRec
     /\ div' = div + (IF actT = expT /\ Ev.additions = additions THEN 0 ELSE 1)
     /\ viol' = viol \cup KeyViol(k)
          \cup (IF Ev.est >= Min2(15, newRec[k]) THEN {} ELSE {<<tid, l, "undercount">>})
          \cup (IF \E i \in 1..4 : Ev.vals[i] < Val(expT, k[i]) THEN {<<tid, l, "inc">>} ELSE {})
  /\ UNCHANGED <<len, sample, tid, nres>>

\* estimate of a key without touching it: checks counters other steps did not log
TrEst ==
  /\ Step /\ Ev.op = "est"
  /\ LET k == Key(Ev) IN
     /\ div' = div + (IF Ev.est = Estimate(tbl, k) THEN 0 ELSE 1)
     /\ viol' = viol \cup KeyViol(k)
          \cup (IF Ev.est >= Min2(15, RecOf(k)) THEN {} ELSE {<<tid, l, "undercount">>})
          \cup (IF Ev.est < Estimate(tbl, k) THEN {<<tid, l, "lostcount">>} ELSE {})
  /\ UNCHANGED <<svars, tid, nres>>

TrEnsure ==
  /\ Step /\ Ev.op = "ensure"
  /\ LET grow == len < Ev.size
         n == IF grow THEN NextPow2(IF Ev.size < 16 THEN 16 ELSE Ev.size) ELSE len IN
     /\ len' = Ev.len /\ sample' = Ev.sample /\ additions' = Ev.additions
     /\ tbl' = IF Ev.len # len THEN <<>> ELSE tbl
     /\ rec' = IF Ev.len # len THEN <<>> ELSE rec
     /\ div' = div + (IF Ev.len = n /\ Ev.sample = 10 * n /\ (grow => Ev.additions = 0) THEN 0 ELSE 1)
     /\ viol' = viol
          \cup (IF Ev.len >= len THEN {} ELSE {<<tid, l, "shrink">>})
          \cup (IF Ev.len >= Ev.size THEN {} ELSE {<<tid, l, "toosmall">>})
          \cup (IF Ev.additions < Ev.sample THEN {} ELSE {<<tid, l, "additions">>})
  /\ UNCHANGED <<tid, nres>>

\* driver device: Additions set white-box (to bring a large table close to its sample period)
TrSetAdd ==
  /\ Step /\ Ev.op = "setadd"
  /\ additions' = Ev.additions
  /\ UNCHANGED <<tbl, len, sample, rec, tid, viol, div, nres>>

TrPanic ==
  /\ Step /\ Ev.op = "panic"
  /\ viol' = viol \cup {<<tid, l, "panic">>}
  /\ UNCHANGED <<svars, tid, div, nres>>

Finish ==
  /\ l = Len(Trace) + 1 /\ ~done /\ done' = TRUE
  /\ JsonSerialize(IOEnv.VERIF_RESULT,
        [lines |-> Len(Trace), consumed |-> l - 1, div |-> div, resets |-> nres, viol |-> viol])
  /\ UNCHANGED <<svars, l, tid, viol, div, nres>>

TraceNext == TrNew \/ TrAdd \/ TrAddn \/ TrEst \/ TrEnsure \/ TrSetAdd \/ TrPanic \/ Finish
TraceSpec == TraceInit /\ [][TraceNext]_tvars
=============================================================================
