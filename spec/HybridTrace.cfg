SPECIFICATION TraceSpec
