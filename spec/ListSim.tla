------------------------------ MODULE ListSim ------------------------------
(* Behaviour generator for List.tla: TLC random walks exported as operation sequences,  *)
(* executed on real List objects by the harness (five lists sharing eight entries: the  *)
(* three regions and two wheel slots) and judged by ListTrace.                          *)
EXTENDS List, TLC, Json, IOUtils
CONSTANT Depth
VARIABLE hist
SimLType == <<4, 1, 2, 3, 3>>
SimInit == Init /\ hist = <<[op |-> "init", pw |-> pw]>>
Op(o) == hist' = Append(hist, o)
SimNext ==
  \/ \E l \in Lists, e \in Ents :
        \/ PushFront(l, e) /\ Op([op |-> "pushfront", l |-> l, e |-> e])
        \/ PushBack(l, e) /\ Op([op |-> "pushback", l |-> l, e |-> e])
        \/ Remove(l, e) /\ Op([op |-> "remove", l |-> l, e |-> e])
        \/ MoveToFront(l, e) /\ Op([op |-> "tofront", l |-> l, e |-> e])
        \/ MoveToBack(l, e) /\ Op([op |-> "toback", l |-> l, e |-> e])
        \/ \E m \in Ents : MoveBefore(l, e, m) /\ Op([op |-> "before", l |-> l, e |-> e, m |-> m])
        \/ \E m \in Ents : MoveAfter(l, e, m) /\ Op([op |-> "after", l |-> l, e |-> e, m |-> m])
        \/ \E w \in Weights : Cost(l, e, w) /\ Op([op |-> "cost", l |-> l, e |-> e, w |-> w])
  \/ \E l \in Lists : PopTail(l) /\ Op([op |-> "poptail", l |-> l])
  \/ \E e \in OtherEnts, f \in OtherFlags, b \in BOOLEAN :
        SetOther(e, f, b) /\ Op([op |-> "flag", e |-> e, f |-> f, b |-> b])
SimSpec == SimInit /\ [][SimNext]_<<vars, hist>>
Export ==
  IF Len(hist) = Depth
  THEN ndJsonSerialize(IOEnv.VERIF_SIMDIR \o "/sim_" \o ToString(TLCGet("stats").traces) \o ".ndjson", hist)
  ELSE TRUE
=============================================================================
