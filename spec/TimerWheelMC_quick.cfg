SPECIFICATION Spec
CONSTANTS
  Buckets <- ScaledBuckets
  Shift <- ScaledShift
  Spans <- ScaledSpans
  Entries = {e1}
  Fixed = TRUE
  Offsets = {1,2,3,4,5,6,7,8,9,10,15,16,17,30,31,32,33,34,62,63,64,65,66,126,127,128,129,130,200,255,256,257,300}
  Steps = {1,2,3,4,5,7,8,9,15,16,17,31,32,33,63,64,65,127,128,129,257}
  MaxTime = 200
INVARIANTS NeverEarly NoOverdue PosOK
