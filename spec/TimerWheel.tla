---------------------------- MODULE TimerWheel ----------------------------
(* Hierarchical timer wheel of theine-go (internal/timerwheel.go).                       *)
(*                                                                                       *)
(* Five levels.  Level L has Buckets[L] slots, a slot spans 2^Shift[L] time units.       *)
(* schedule(): the level is chosen from the REMAINING duration (deadline - nanos), the   *)
(* slot from the ABSOLUTE deadline tick.  advance(now): for every level whose tick       *)
(* changed (lowest first, stopping at the first unchanged level) the slots between the   *)
(* previous and the current tick are visited; a visited entry is removed if its deadline *)
(* is <= now and re-scheduled (cascade) otherwise.                                       *)
(*                                                                                       *)
(* Entries are independent of each other in this algorithm, so advance is described per  *)
(* entry by the recursive operator AdvFrom, which follows the loop of advance()/expire().*)
(*                                                                                       *)
(* Fixed = FALSE is the code as pinned (expire() visits `delta` slots starting at the    *)
(* previous tick, so the slot of the current tick is not cascaded); Fixed = TRUE visits  *)
(* delta+1 slots (the repaired design, as in Caffeine).                                  *)
EXTENDS Integers, Sequences, FiniteSets, TLC

CONSTANTS Buckets,   \* <<b1..b5>>  slots per level            (code: 64,64,32,4,1)
          Shift,     \* <<s1..s5>>  log2 of slot span per level (code: 30,36,42,47,49)
          Spans,     \* <<p1..p6>>  spans as in the code's `spans` (p[L+1] = Buckets[L]*2^Shift[L])
          Entries,
          Fixed

VARIABLES nanos,      \* wheel time (tw.nanos)
          dl,         \* dl[e]   deadline of e (entry.expire)
          pos,        \* pos[e]  <<level, slot>> or <<0,0>> when not scheduled
          contract,   \* ghost: e was (re)scheduled with dl > nanos (what the callers promise)
          removed     \* entries handed to remove() by the last advance (empty after other steps)

vars == <<nanos, dl, pos, contract, removed>>

NoPos == <<0, 0>>
Levels == 1..5

Pow2(n) == 2^n
Tick(t, L) == t \div Pow2(Shift[L])

\* findIndex(expire): first level whose span exceeds the remaining duration; (4,0) otherwise.
LevelOf(d, n) ==
  LET dur == d - n IN
  IF dur < Spans[2] THEN 1 ELSE
  IF dur < Spans[3] THEN 2 ELSE
  IF dur < Spans[4] THEN 3 ELSE
  IF dur < Spans[5] THEN 4 ELSE 5
\* the code returns (4,0) when no span matches and otherwise masks the absolute tick
SlotOf(d, L) == Tick(d, L) % Buckets[L]
FindIndex(d, n) == LET L == LevelOf(d, n) IN <<L, SlotOf(d, L)>>

Changed(L, prev, now) == Tick(now, L) > Tick(prev, L)

Min(a, b) == IF a < b THEN a ELSE b

\* slots of level L visited by expire(index, prevTicks, delta)
Visited(L, prev, now) ==
  LET pt    == Tick(prev, L)
      delta == Tick(now, L) - pt
      want  == IF Fixed THEN delta + 1 ELSE delta
      steps == Min(want, Buckets[L])
  IN { (pt + i) % Buckets[L] : i \in 0..(steps - 1) }

Gone == <<-1, -1>>

\* Outcome for one entry at position p with deadline d of advance from prev to now,
\* processing levels L, L+1, ... as the loop in advance() does.
RECURSIVE AdvFrom(_, _, _, _, _)
AdvFrom(L, p, d, prev, now) ==
  IF L > 5 THEN p
  ELSE IF ~Changed(L, prev, now) THEN p      \* `break` at the first unchanged level
  ELSE IF p # NoPos /\ p # Gone /\ p[1] = L /\ p[2] \in Visited(L, prev, now)
       THEN IF d <= now THEN Gone
            ELSE AdvFrom(L + 1, FindIndex(d, now), d, prev, now)
       ELSE AdvFrom(L + 1, p, d, prev, now)

AdvEntry(e, now) == IF pos[e] = NoPos THEN NoPos ELSE AdvFrom(1, pos[e], dl[e], nanos, now)

Init ==
  /\ nanos = 0
  /\ dl = [e \in Entries |-> 0]
  /\ pos = [e \in Entries |-> NoPos]
  /\ contract = [e \in Entries |-> TRUE]
  /\ removed = {}

\* schedule(entry) with entry.expire = d (covers the first schedule and a re-schedule)
Schedule(e, d) ==
  /\ d > 0
  /\ dl' = [dl EXCEPT ![e] = d]
  /\ pos' = [pos EXCEPT ![e] = FindIndex(d, nanos)]
  /\ contract' = [contract EXCEPT ![e] = (d > nanos)]
  /\ removed' = {}
  /\ UNCHANGED nanos

\* deschedule(entry): removal by the policy / Delete
Deschedule(e) ==
  /\ pos[e] # NoPos
  /\ pos' = [pos EXCEPT ![e] = NoPos]
  /\ removed' = {}
  /\ UNCHANGED <<nanos, dl, contract>>

\* advance(now, remove)
Advance(now) ==
  /\ now >= nanos
  /\ nanos' = now
  /\ LET res == [e \in Entries |-> AdvEntry(e, now)] IN
     /\ pos' = [e \in Entries |-> IF res[e] = Gone THEN NoPos ELSE res[e]]
     /\ removed' = {e \in Entries : res[e] = Gone}
  /\ UNCHANGED <<dl, contract>>

-----------------------------------------------------------------------------
(* Properties (C04) *)

\* an entry is never removed before its deadline (state form: `removed` is the last advance's set)
NeverEarly == \A e \in removed : dl[e] <= nanos

\* after any advance, no scheduled entry (scheduled under the callers' contract) has a
\* deadline whose finest tick lies strictly before the wheel's current finest tick:
\* lateness < one finest tick + the gap between two advances.
NoOverdue == \A e \in Entries :
  (pos[e] # NoPos /\ contract[e]) => ~(Tick(dl[e], 1) < Tick(nanos, 1))

\* structural: the slot is always the absolute deadline tick masked, the level covers the rest
PosOK == \A e \in Entries :
  pos[e] # NoPos => /\ pos[e][1] \in Levels
                    /\ pos[e][2] = SlotOf(dl[e], pos[e][1])
                    /\ pos[e][1] >= LevelOf(dl[e], nanos) \/ ~contract[e] \/ dl[e] <= nanos
=============================================================================
