SPECIFICATION Spec
CONSTANTS
  Cap = 3
  Readers = {1, 2, 3}
  MaxAdds = 2
  Fixed = TRUE
INVARIANTS TypeOK NoInvent TokenOwner OneOwner NoWedge
