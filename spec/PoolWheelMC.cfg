SPECIFICATION Spec
CONSTANTS
  FixD22 = TRUE
  MaxLife = 3
INVARIANTS NoTtlNeverExpired FreeNotLinked
CHECK_DEADLOCK FALSE
