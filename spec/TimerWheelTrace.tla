-------------------------- MODULE TimerWheelTrace --------------------------
(* Trace validation for C04.  Each line of the trace is one step of the real TimerWheel   *)
(* with what the code did.  The state follows the implementation (what it logged); the    *)
(* operators of TimerWheel give the EXPECTED outcome from the previous state:             *)
(*   div   counts steps whose logged outcome differs from the specification (model        *)
(*         divergence: placement or removal set differs)                                  *)
(*   viol  collects violations of the property invariants (NeverEarly, NoOverdue) of the  *)
(*         implementation's own state: <<trace id, line, kind, entry>>                    *)
(* Many traces are concatenated with "reset" lines.                                       *)
EXTENDS TimerWheel, Json, IOUtils

RealBuckets == <<64, 64, 32, 4, 1>>
RealShift   == <<6, 12, 18, 23, 25>>              \* units of 2^24 ns: 30,36,42,47,49 minus 24
RealSpans   == <<64, 4096, 262144, 8388608, 33554432, 33554432>>
ScaledBuckets == <<4, 4, 2, 2, 1>>
ScaledShift   == <<1, 3, 5, 6, 7>>
ScaledSpans   == <<2, 8, 32, 64, 128, 128>>

Trace == ndJsonDeserialize(IOEnv.VERIF_TRACE)

VARIABLES l, tid, viol, div, nadv, done

tvars == <<vars, l, tid, viol, div, nadv, done>>

Ev == Trace[l]
ToSet(s) == {s[i] : i \in DOMAIN s}

TraceInit == Init /\ l = 1 /\ tid = 0 /\ viol = {} /\ div = 0 /\ nadv = 0 /\ done = FALSE

Step == l <= Len(Trace) /\ l' = l + 1 /\ UNCHANGED done

TrReset ==
  /\ Step /\ Ev.op = "reset"
  /\ nanos' = 0 /\ dl' = [e \in Entries |-> 0] /\ pos' = [e \in Entries |-> NoPos]
  /\ contract' = [e \in Entries |-> TRUE] /\ removed' = {}
  /\ tid' = Ev.id
  /\ UNCHANGED <<viol, div, nadv>>

TrSchedule ==
  /\ Step /\ Ev.op = "schedule"
  /\ LET e == Ev.e  d == Ev.d  exp == FindIndex(d, nanos)  act == <<Ev.lvl, Ev.slot>> IN
     /\ dl' = [dl EXCEPT ![e] = d]
     /\ pos' = [pos EXCEPT ![e] = act]
     /\ contract' = [contract EXCEPT ![e] = (d > nanos)]
     /\ div' = div + (IF exp = act THEN 0 ELSE 1)
     /\ viol' = viol \cup (IF act[1] \in Levels /\ act[2] >= 0 /\ act[2] < Buckets[act[1]] THEN {}
                           ELSE {<<tid, l, "badslot", e>>})
  /\ removed' = {}
  /\ UNCHANGED <<nanos, tid, nadv>>

TrDeschedule ==
  /\ Step /\ Ev.op = "deschedule"
  /\ pos' = [pos EXCEPT ![Ev.e] = NoPos]
  /\ removed' = {}
  /\ UNCHANGED <<nanos, dl, contract, tid, viol, div, nadv>>

TrAdvance ==
  /\ Step /\ Ev.op = "advance"
  /\ LET now  == Ev.now
         exp  == [e \in Entries |-> AdvEntry(e, now)]
         rem  == ToSet(Ev.removed)
         lp   == Ev.pos
         act  == [e \in Entries |->
                    IF \E i \in DOMAIN lp : lp[i][1] = e
                    THEN LET i == CHOOSE i \in DOMAIN lp : lp[i][1] = e IN <<lp[i][2], lp[i][3]>>
                    ELSE NoPos]
         expPos == [e \in Entries |-> IF exp[e] = Gone THEN NoPos ELSE exp[e]]
     IN
     /\ nanos' = now
     /\ removed' = rem
     /\ pos' = act
     /\ div' = div + Cardinality({e \in Entries : act[e] # expPos[e]})
                   + (IF rem = {e \in Entries : exp[e] = Gone} THEN 0 ELSE 1)
     /\ viol' = viol
          \cup {<<tid, l, "early", e>> : e \in {x \in rem : dl[x] > now}}
          \cup {<<tid, l, "spurious", e>> : e \in {x \in rem : pos[x] = NoPos}}
          \cup {<<tid, l, "overdue", e>> :
                  e \in {x \in Entries : act[x] # NoPos /\ contract[x] /\ Tick(dl[x], 1) < Tick(now, 1)}}
          \cup {<<tid, l, "lost", e>> :
                  e \in {x \in Entries : pos[x] # NoPos /\ x \notin rem /\ act[x] = NoPos}}
          \cup (IF Ev.nanos = now THEN {} ELSE {<<tid, l, "nanos", 0>>})
  /\ nadv' = nadv + 1
  /\ UNCHANGED <<dl, contract, tid>>

Finish ==
  /\ l = Len(Trace) + 1 /\ ~done
  /\ done' = TRUE
  /\ JsonSerialize(IOEnv.VERIF_RESULT,
        [lines |-> Len(Trace), consumed |-> l - 1, div |-> div, advances |-> nadv,
         viol |-> viol])
  /\ UNCHANGED <<vars, l, tid, viol, div, nadv>>

TraceNext == TrReset \/ TrSchedule \/ TrDeschedule \/ TrAdvance \/ Finish

TraceSpec == TraceInit /\ [][TraceNext]_tvars

\* the whole trace must be consumed (checked as a postcondition by the driver through the
\* result file: consumed = lines)
=============================================================================
