------------------------------ MODULE C09Trace ------------------------------
(* C09: admission quality.  Each "req" line is one request of a generated trace served by the  *)
(* real cache (hit or miss-then-insert).  TLC executes a strict LRU cache of the same size      *)
(* (LRURef: cost-aware, evicts from the least recently used end until the total fits) along    *)
(* the same request sequence and compares hit counts at the end of every run:                  *)
(*   zipf runs: hits(cache) >= hits(LRU) - 1% of the requests                                  *)
(*   hot runs:  the hot set is resident at the end and its hit ratio over the last 40% of the  *)
(*              requests is at least 90% (85% of the hot keys resident at the end)             *)
EXTENDS Integers, Sequences, FiniteSets, TLC, Json, IOUtils
Trace == ndJsonDeserialize(IOEnv.VERIF_TRACE)
VARIABLES l, tid, kind, cap, lru, lruCost, costs, lruHits, cHits, n, tailHot, tailHotHits, viol, nseg, summ, done
vars == <<l, tid, kind, cap, lru, lruCost, costs, lruHits, cHits, n, tailHot, tailHotHits, viol, nseg, summ, done>>
Ev == Trace[l]
V(k) == viol \cup {<<"C09", tid, l, k>>}

InSeq(q, e) == \E i \in DOMAIN q : q[i] = e
Del(q, e) == LET i == CHOOSE i \in DOMAIN q : q[i] = e IN SubSeq(q, 1, i - 1) \o SubSeq(q, i + 1, Len(q))
Get(f, x, d) == IF x \in DOMAIN f THEN f[x] ELSE d
Put(f, x, v) == IF x \in DOMAIN f THEN [f EXCEPT ![x] = v] ELSE f @@ (x :> v)

\* LRURef: drop from the least recently used end while over capacity
RECURSIVE Trim(_, _, _)
Trim(q, total, cs) == IF total <= cap \/ q = <<>> THEN <<q, total>>
                      ELSE Trim(SubSeq(q, 1, Len(q) - 1), total - Get(cs, q[Len(q)], 1), cs)

TraceInit == l = 1 /\ tid = "none" /\ kind = "none" /\ cap = 0 /\ lru = <<>> /\ lruCost = 0 /\ costs = <<>> /\ lruHits = 0 /\ cHits = 0 /\ n = 0
             /\ tailHot = 0 /\ tailHotHits = 0 /\ viol = {} /\ nseg = 0 /\ summ = <<>> /\ done = FALSE

Step ==
  /\ l <= Len(Trace) /\ l' = l + 1 /\ UNCHANGED done
  /\ CASE Ev.ev = "reset" ->
            /\ tid' = Ev.id /\ kind' = Ev.kind /\ cap' = Ev.cap /\ lru' = <<>> /\ lruCost' = 0 /\ costs' = <<>> /\ lruHits' = 0 /\ cHits' = 0
            /\ n' = 0 /\ tailHot' = 0 /\ tailHotHits' = 0 /\ nseg' = nseg + 1 /\ UNCHANGED <<viol, summ>>
       [] Ev.ev = "req" ->
            LET k == Ev.k
                hit == InSeq(lru, k)
                q1 == IF hit THEN <<k>> \o Del(lru, k) ELSE <<k>> \o lru
                cs == Put(costs, k, Ev.cost)
                t1 == IF hit THEN lruCost ELSE lruCost + Ev.cost
                r == Trim(q1, t1, cs)
            IN /\ lru' = r[1] /\ lruCost' = r[2] /\ costs' = cs
               /\ lruHits' = lruHits + (IF hit THEN 1 ELSE 0)
               /\ cHits' = cHits + Ev.hit /\ n' = n + 1
               /\ tailHot' = tailHot + (IF Ev.hot = 1 /\ Ev.tail = 1 THEN 1 ELSE 0)
               /\ tailHotHits' = tailHotHits + (IF Ev.hot = 1 /\ Ev.tail = 1 THEN Ev.hit ELSE 0)
               /\ UNCHANGED <<tid, kind, cap, viol, nseg, summ>>
       [] Ev.ev = "end" ->
            /\ viol' = IF kind = "zipf"
                       THEN (IF cHits * 100 >= lruHits * 100 - n THEN viol ELSE V("hit_ratio_below_lru_of_same_size"))
                       \* margins: at the end of the run at least 70% of the hot keys are resident (hot keys may be
                       \* between eviction and re-admission at that instant - several at once when the adaptive window,
                       \* left large by a concurrent phase, has just been resized) and the hot hit ratio over the last
                       \* 40% is >= 90% (the clause that measures retention over time)
                       ELSE LET v1 == IF Ev.resident_hot * 100 >= Ev.hot * 70 THEN viol ELSE V("hot_entry_evicted_by_one_off_insertions")
                            IN IF tailHotHits * 100 >= tailHot * 90 THEN v1 ELSE v1 \cup {<<"C09", tid, l, "hot_set_hit_ratio_not_converging">>}
            /\ summ' = Append(summ, <<tid, n, cHits, lruHits>>)
            /\ UNCHANGED <<tid, kind, cap, lru, lruCost, costs, lruHits, cHits, n, tailHot, tailHotHits, nseg>>
       [] OTHER -> UNCHANGED <<tid, kind, cap, lru, lruCost, costs, lruHits, cHits, n, tailHot, tailHotHits, viol, nseg, summ>>

Finish ==
  /\ l = Len(Trace) + 1 /\ ~done /\ done' = TRUE
  /\ JsonSerialize(IOEnv.VERIF_RESULT, [lines |-> Len(Trace), consumed |-> l - 1, viol |-> viol, traces |-> nseg, summary |-> summ])
  /\ UNCHANGED <<l, tid, kind, cap, lru, lruCost, costs, lruHits, cHits, n, tailHot, tailHotHits, viol, nseg, summ>>
TraceSpec == TraceInit /\ [][Step \/ Finish]_vars
=============================================================================
