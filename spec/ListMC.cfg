SPECIFICATION Spec
CONSTANTS
  Ents = {1, 2, 3}
  NLists = 3
  LType <- MCLType3
  Weights = {1, 2}
  OtherEnts = {}
CONSTRAINT Bounded
INVARIANT Inv
PROPERTIES OtherBitsKept LinkSetsIndependent
CHECK_DEADLOCK FALSE
