----------------------------- MODULE PersistTrace -----------------------------
(* Trace validation for C11 / C12.  "saved": the state of a real cache when it was saved and   *)
(* the block list of its stream.  "load": one Recover of a (possibly damaged) block list into  *)
(* a fresh cache, with the resulting regions.  TLC evaluates Load of Persist.tla on the same    *)
(* block list and compares (div = loads that differ from the specification), and evaluates the *)
(* C11 / C12 predicates on what the code did.  "byteload": byte-level damage, judged by the     *)
(* C12 predicate alone.                                                                        *)
EXTENDS Persist, Json, IOUtils
Trace == ndJsonDeserialize(IOEnv.VERIF_TRACE)
VARIABLES l, tid, sv, viol, div, nload, nbyte, nseg, done
vars == <<l, tid, sv, viol, div, nload, nbyte, nseg, done>>
Ev == Trace[l]
V(p, k) == IF Cardinality({x \in viol : x[1] = p /\ x[4] = k}) >= 25 THEN viol ELSE viol \cup {<<p, tid, l, k>>}

Ent(x) == [k |-> x[1], v |-> x[2], cost |-> x[3], dl |-> x[4], fr |-> 0]
EntF(x) == [k |-> x[1], v |-> x[2], cost |-> x[3], dl |-> x[4], fr |-> x[5]]
Ents(q) == [i \in DOMAIN q |-> Ent(q[i])]
Pk(b) == IF b.ver # 0 \/ b.start # 0 THEN "meta" ELSE IF Len(b.ents) > 0 THEN "ents" ELSE "other"
\* the kind of payload is known from the block's position in the ORIGINAL stream: carried as origtp
Blk(b) == [tp |-> b.tp, pk |-> IF b.otp = 1 THEN "meta" ELSE IF b.otp = 255 THEN "end" ELSE "ents",
           sumok |-> b.sumok = 1, ents |-> Ents(b.ents), ver |-> b.ver, start |-> b.start]
Blocks(q) == [i \in DOMAIN q |-> Blk(q[i])]
Cache(st) == [win |-> Ents(st.win), pt |-> Ents(st.pt), pb |-> Ents(st.pb), ver |-> sv.ver, start |-> 1000, up |-> 0]
Freq(q) == [i \in DOMAIN q |-> <<q[i][1], q[i][5]>>]

TraceInit == l = 1 /\ tid = "none" /\ sv = [state |-> <<>>, size |-> 0, ver |-> 7] /\ viol = {} /\ div = 0 /\ nload = 0 /\ nbyte = 0 /\ nseg = 0 /\ done = FALSE

LoadedSet(e) == ToSet(Ents(e.win)) \cup ToSet(Ents(e.pt)) \cup ToSet(Ents(e.pb))
SavedSet == ToSet(Ents(sv.state.win)) \cup ToSet(Ents(sv.state.pt)) \cup ToSet(Ents(sv.state.pb))
FreqOK(e) == \A x \in ToSet(Freq(e.win) \o Freq(e.pt) \o Freq(e.pb)) :
               \A y \in ToSet(Freq(sv.state.win) \o Freq(sv.state.pt) \o Freq(sv.state.pb)) : x[1] = y[1] => x[2] >= y[2]

Step ==
  /\ l <= Len(Trace) /\ l' = l + 1 /\ UNCHANGED done
  /\ CASE Ev.ev = "saved" ->
            /\ tid' = Ev.id /\ sv' = [state |-> Ev.state, size |-> Ev.size, ver |-> Ev.ver] /\ nseg' = nseg + 1
            /\ UNCHANGED <<viol, div, nload, nbyte>>
       [] Ev.ev = "load" ->
            LET T == [capW |-> Ev.capW, capT |-> Ev.capT, main |-> Ev.main]
                c == Cache(sv.state)
                R == Load(Blocks(Ev.blocks), Ev.ver, T, Ev.wall)
                actual == [win |-> Ents(Ev.win), pt |-> Ents(Ev.pt), pb |-> Ents(Ev.pb)]
                same == /\ (R.err = "none") = (Ev.err = "none")
                        /\ R.win = actual.win /\ R.pt = actual.pt /\ R.pb = actual.pb
                now == Ev.wall - 1000
                clean == Ev.fault = "none"
                fits == SumCost(c.win) <= T.capW /\ SumCost(c.pt) <= T.capT /\ SumCost(c.pt) + SumCost(c.pb) <= T.main
                ar == [err |-> Ev.err, win |-> actual.win, pt |-> actual.pt, pb |-> actual.pb,
                       origin |-> IF Ev.origin_ok = 1 THEN 1000 ELSE -1, metaSeen |-> TRUE]
                uniform == \A x \in ToSet(All(c)) : x.cost = 1
                total == SumCost(actual.win) + SumCost(actual.pt) + SumCost(actual.pb)
                \* C11
                v1 == IF clean /\ Ev.err # "none" THEN V("C11", "clean_stream_not_loaded") ELSE viol
                v2 == IF clean /\ Ev.err = "none" /\ ~(IsPrefix(actual.win, Alive(c.win, now)) /\ IsPrefix(actual.pt, Alive(c.pt, now)) /\ IsPrefix(actual.pb, Alive(c.pb, now)))
                      THEN v1 \cup {<<"C11", tid, l, "restored_region_not_a_prefix_of_saved_region_in_saved_order">>} ELSE v1
                v3 == IF clean /\ Ev.err = "none" /\ Ev.tsize = sv.size /\ ~(actual.win = Alive(c.win, now) /\ actual.pt = Alive(c.pt, now) /\ actual.pb = Alive(c.pb, now))
                      THEN v2 \cup {<<"C11", tid, l, IF fits \/ ~same THEN "same_size_load_lost_unexpired_entries" ELSE "same_size_load_lost_entries_of_adapted_window">>} ELSE v2
                v4 == IF clean /\ Ev.err = "none" /\ total > Ev.tsize
                      THEN v3 \cup {<<"C11", tid, l, IF uniform \/ ~same THEN "loaded_cost_above_new_capacity" ELSE "loaded_mixed_costs_above_new_capacity">>} ELSE v3
                v5 == IF clean /\ Ev.err = "none" /\ (Ev.ws # total \/ Ev.resident # Len(actual.win) + Len(actual.pt) + Len(actual.pb) \/ Ev.lenW # SumCost(actual.win) \/ Ev.lenT # SumCost(actual.pt) \/ Ev.lenB # SumCost(actual.pb))
                      THEN v4 \cup {<<"C11", tid, l, "loaded_cache_inconsistent">>} ELSE v4
                v5b == IF clean /\ Ev.err = "none" /\ (Ev.resident # Len(actual.win) + Len(actual.pt) + Len(actual.pb) \/ Ev.ws # total)
                       THEN v5 \cup {<<"C16", tid, l, "len_or_estimated_size_of_loaded_cache_differs_from_its_tracked_entries">>,
                                     <<"C02", tid, l, "loaded_cache_holds_entries_the_policy_does_not_track_or_counts_differently">>} ELSE v5
                v6 == IF clean /\ Ev.err = "none" /\ (Ev.origin_ok # 1 \/ ~FreqOK(Ev)) THEN v5b \cup {<<"C11", tid, l, "clock_origin_or_frequency_not_restored">>} ELSE v5b
                \* C12
                v7 == IF Ev.fault = "truncate" /\ Ev.err = "none" THEN v6 \cup {<<"C12", tid, l, "truncated_stream_loaded_without_error">>} ELSE v6
                v8 == IF Ev.err = "panic" THEN v7 \cup {<<"C12", tid, l, "load_panicked">>} ELSE v7
                wrongver == Ev.ver # sv.ver
                v9 == IF ~clean /\ ~wrongver /\ ~FaultSafe(c, ar) THEN v8 \cup {<<"C12", tid, l, IF Blocks(Ev.blocks) # <<>> /\ Blocks(Ev.blocks)[1].tp # 1 THEN "damaged_stream_without_leading_metadata_block_loaded" ELSE "damaged_stream_loaded_wrong_data">>} ELSE v8
                v10 == IF wrongver /\ ~(Ev.err # "none" /\ LoadedSet(Ev) = {}) THEN v9 \cup {<<"C12", tid, l, IF Blocks(Ev.blocks) # <<>> /\ Blocks(Ev.blocks)[1].tp # 1 THEN "other_version_loaded_from_stream_without_leading_metadata_block" ELSE "other_version_not_refused_before_loading">>} ELSE v9
                v11 == IF Ev.fault = "version" /\ Ev.err # "version" THEN v10 \cup {<<"C12", tid, l, "version_mismatch_not_reported">>} ELSE v10
                \* C03 / C11 through the API: what the loaded cache serves before its first tick is a saved entry
                \* with its saved value whose deadline had not passed when the stream was loaded
                alive == ToSet(Alive(All(c), now))
                srv == {<<Ev.served[i][1], Ev.served[i][2]>> : i \in DOMAIN Ev.served}
                dead == {x \in srv : (\E y \in ToSet(All(c)) : y.k = x[1] /\ y.v = x[2]) /\ ~(\E y \in alive : y.k = x[1] /\ y.v = x[2])}
                alien == {x \in srv : ~(\E y \in ToSet(All(c)) : y.k = x[1] /\ y.v = x[2])}
                v12 == IF dead # {} THEN v11 \cup {<<"C03", tid, l, "entry_expired_before_the_load_served_after_it">>} ELSE v11
                v13 == IF alien # {} THEN v12 \cup {<<"C11", tid, l, "loaded_cache_serves_value_that_was_not_saved">>} ELSE v12
                \* ... and every loaded entry that is not about to expire is reachable by its key (C11; C18: the key
                \* addresses the restored entry - it sits in the shard its hash selects)
                reach == {x \in ToSet(actual.win \o actual.pt \o actual.pb) : x.dl = 0 \/ x.dl > now + 2000}
                lostk == IF clean /\ Ev.err = "none" THEN {x \in reach : <<x.k, x.v>> \notin srv} ELSE {}
                v14 == IF lostk # {} THEN v13 \cup {<<"C11", tid, l, "loaded_entry_not_reachable_by_its_key">>, <<"C18", tid, l, "restored_entry_not_addressed_by_its_key">>} ELSE v13
            IN /\ viol' = v14 /\ div' = div + (IF same THEN 0 ELSE 1) /\ nload' = nload + 1
               /\ UNCHANGED <<tid, sv, nbyte, nseg>>
       [] Ev.ev = "byteload" ->
            LET ar == [err |-> Ev.err, win |-> Ents(Ev.win), pt |-> Ents(Ev.pt), pb |-> Ents(Ev.pb),
                       origin |-> IF Ev.origin_ok = 1 THEN 1000 ELSE -1, metaSeen |-> TRUE]
                c == Cache(sv.state)
                v1 == IF Ev.err = "panic" THEN V("C12", "load_panicked") ELSE viol
                v2 == IF Ev.ver = sv.ver /\ ~FaultSafe(c, ar) THEN v1 \cup {<<"C12", tid, l, "damaged_bytes_loaded_wrong_data">>} ELSE v1
                v3 == IF Ev.fault = "bytetrunc" /\ Ev.err = "none" THEN v2 \cup {<<"C12", tid, l, "truncated_stream_loaded_without_error">>} ELSE v2
                v4 == IF Ev.ver # sv.ver /\ ~(Ev.err # "none" /\ LoadedSet(Ev) = {}) THEN v3 \cup {<<"C12", tid, l, "other_version_not_refused_before_loading">>} ELSE v3
            IN /\ viol' = v4 /\ nbyte' = nbyte + 1 /\ UNCHANGED <<tid, sv, div, nload, nseg>>
       [] Ev.ev = "reclaim" ->
            \* C04 for restored entries: two ticks (1.1 s and 2.2 s after the earliest restored deadline) must have
            \* reclaimed everything that was due 2.1 s before the second one
            /\ viol' = IF Ev.overdue > 0 THEN V("C04", "restored_entry_not_reclaimed_two_ticks_after_its_deadline") ELSE viol
            /\ UNCHANGED <<tid, sv, div, nload, nbyte, nseg>>
       [] Ev.ev = "later" ->
            \* C03 for restored entries: read some time after the load, nothing is served past the deadline it was saved with
            LET c == Cache(sv.state)
                now2 == Ev.wall - 1000
                alive2 == ToSet(Alive(All(c), now2))
                srv == {<<Ev.served[i][1], Ev.served[i][2]>> : i \in DOMAIN Ev.served}
                dead2 == {x \in srv : (\E y \in ToSet(All(c)) : y.k = x[1] /\ y.v = x[2]) /\ ~(\E y \in alive2 : y.k = x[1] /\ y.v = x[2])}
            IN /\ viol' = IF dead2 # {} THEN V("C03", "restored_entry_served_after_its_saved_deadline") ELSE viol
               /\ UNCHANGED <<tid, sv, div, nload, nbyte, nseg>>
       [] OTHER -> UNCHANGED <<tid, sv, viol, div, nload, nbyte, nseg>>

Finish ==
  /\ l = Len(Trace) + 1 /\ ~done /\ done' = TRUE
  /\ JsonSerialize(IOEnv.VERIF_RESULT, [lines |-> Len(Trace), consumed |-> l - 1, viol |-> viol, div |-> div, loads |-> nload, byteloads |-> nbyte, traces |-> nseg])
  /\ UNCHANGED <<l, tid, sv, viol, div, nload, nbyte, nseg>>
TraceSpec == TraceInit /\ [][Step \/ Finish]_vars
=============================================================================
