-------------------------- MODULE SingleFlightTrace --------------------------
(* Trace validation for C13 at the level of Group.Do: loader invocations per key never      *)
(* overlap; a caller's result is the result of the invocation it led or joined; a finished    *)
(* call is not left in the table; a pooled record is not handed out while still referenced.   *)
EXTENDS Integers, Sequences, FiniteSets, TLC, Json, IOUtils
Trace == ndJsonDeserialize(IOEnv.VERIF_TRACE)
VARIABLES l, tid, running, invOf, outc, valOf, fin, retd, viol, nseg, ncalls, done
vars == <<l, tid, running, invOf, outc, valOf, fin, retd, viol, nseg, ncalls, done>>
Ev == Trace[l]
Get(f, x, d) == IF x \in DOMAIN f THEN f[x] ELSE d
Put(f, x, v) == IF x \in DOMAIN f THEN [f EXCEPT ![x] = v] ELSE f @@ (x :> v)
V(k) == IF Cardinality(viol) >= 40 THEN viol ELSE viol \cup {<<"C13", tid, l, k>>}

TraceInit == l = 1 /\ tid = "none" /\ running = <<>> /\ invOf = <<>> /\ outc = <<>> /\ valOf = <<>> /\ fin = {} /\ retd = {} /\ viol = {} /\ nseg = 0 /\ ncalls = 0 /\ done = FALSE

Step ==
  /\ l <= Len(Trace) /\ l' = l + 1 /\ UNCHANGED done
  /\ CASE Ev.ev = "reset" ->
            /\ tid' = Ev.id /\ running' = <<>> /\ invOf' = <<>> /\ outc' = <<>> /\ valOf' = <<>> /\ fin' = {} /\ retd' = {} /\ nseg' = nseg + 1
            /\ UNCHANGED <<viol, ncalls>>
       [] Ev.ev = "leader" ->
            \* invOf[c]: the invocation caller c belongs to
            /\ invOf' = Put(invOf, Ev.c, Ev.inv)
            /\ viol' = IF Ev.dups = 1 THEN viol ELSE V("call_record_reinitialised_while_in_use")
            /\ ncalls' = ncalls + 1
            /\ UNCHANGED <<tid, running, outc, valOf, fin, retd, nseg>>
       [] Ev.ev = "joined" ->
            /\ invOf' = Put(invOf, Ev.c, Ev.inv)
            \* joining is legal until the call finishes; nobody may join once its result has been handed to a caller
            /\ viol' = IF Ev.inv \in fin THEN V("joined_a_call_that_had_already_finished")
                       ELSE IF Ev.inv \in retd THEN V("joined_a_call_whose_result_was_already_delivered") ELSE viol
            /\ ncalls' = ncalls + 1
            /\ UNCHANGED <<tid, running, outc, valOf, fin, retd, nseg>>
       [] Ev.ev = "loadstart" ->
            /\ running' = Put(running, Ev.k, Get(running, Ev.k, 0) + 1)
            /\ viol' = IF Get(running, Ev.k, 0) = 0 THEN viol ELSE V("two_loader_invocations_running_for_one_key")
            /\ valOf' = Put(valOf, Get(invOf, Ev.c, 0), Ev.v)
            /\ UNCHANGED <<tid, invOf, outc, fin, retd, nseg, ncalls>>
       [] Ev.ev = "loadend" ->
            /\ running' = Put(running, Ev.k, Get(running, Ev.k, 1) - 1)
            /\ outc' = Put(outc, Get(invOf, Ev.c, 0), Ev.o)
            /\ UNCHANGED <<tid, invOf, valOf, fin, retd, viol, nseg, ncalls>>
       [] Ev.ev = "finished" ->
            /\ viol' = IF Ev.intable = 0 THEN viol ELSE V("finished_call_left_in_table")
            /\ fin' = fin \cup {Ev.inv}
            /\ UNCHANGED <<tid, running, invOf, outc, valOf, retd, nseg, ncalls>>
       [] Ev.ev = "ret" ->
            LET i == Get(invOf, Ev.c, 0)
                o == Get(outc, i, "none")
                want == o
                bad == \/ o = "none"
                       \/ Ev.kind # want
                       \/ (o = "ok" /\ Ev.v # Get(valOf, i, -1))
            IN /\ viol' = IF bad THEN V("caller_result_differs_from_the_invocation_it_joined") ELSE viol
               /\ retd' = retd \cup {i}
               /\ UNCHANGED <<tid, running, invOf, outc, valOf, fin, nseg, ncalls>>
       [] Ev.ev = "woken_locked" ->
            \* a follower left wg.Wait while the harness held the group lock, i.e. before the call left the table:
            \* its result counts as delivered from here on (a later joiner is reported by the "joined" rule)
            /\ retd' = retd \cup {Get(invOf, Ev.c, 0)}
            /\ UNCHANGED <<tid, running, invOf, outc, valOf, fin, viol, nseg, ncalls>>
       [] Ev.ev = "hang" ->
            /\ viol' = V("caller_blocked") /\ UNCHANGED <<tid, running, invOf, outc, valOf, fin, retd, nseg, ncalls>>
       [] Ev.ev = "noreturn" ->
            \* allowed only for callers of an invocation that ended with Goexit
            /\ viol' = IF Get(outc, Get(invOf, Ev.c, 0), "none") = "goexit" THEN viol ELSE V("caller_never_returned")
            /\ UNCHANGED <<tid, running, invOf, outc, valOf, fin, retd, nseg, ncalls>>
       [] Ev.ev = "end" ->
            /\ viol' = IF Ev.intable = 0 THEN viol ELSE V("table_not_empty_after_all_calls_ended")
            /\ UNCHANGED <<tid, running, invOf, outc, valOf, fin, retd, nseg, ncalls>>
       [] OTHER -> UNCHANGED <<tid, running, invOf, outc, valOf, fin, retd, viol, nseg, ncalls>>

Finish ==
  /\ l = Len(Trace) + 1 /\ ~done /\ done' = TRUE
  /\ JsonSerialize(IOEnv.VERIF_RESULT, [lines |-> Len(Trace), consumed |-> l - 1, viol |-> viol, traces |-> nseg, calls |-> ncalls])
  /\ UNCHANGED <<l, tid, running, invOf, outc, valOf, fin, retd, viol, nseg, ncalls>>
TraceSpec == TraceInit /\ [][Step \/ Finish]_vars
=============================================================================
