------------------------------ MODULE StoreMC ------------------------------
EXTENDS Store
AllowAcct == [c \in Clients |-> {"set", "del"}]
AllowWait == [c \in Clients |-> IF c = 1 THEN {"set", "del"} ELSE {"wait"}]
AllowWait2 == [c \in Clients |-> IF c = 1 THEN {"set"} ELSE {"wait"}]
AllowClose == [c \in Clients |-> IF c = 1 THEN {"close"} ELSE IF c = 2 THEN {"set"} ELSE {"wait"}]
AllowSeq == [c \in Clients |-> {"set", "del", "get", "wait"}]
AllowAllW == [c \in Clients |-> {"set", "del", "wait"}]
AllowTime == [c \in Clients |-> IF c = 1 THEN {"set"} ELSE {"get"}]
=============================================================================
