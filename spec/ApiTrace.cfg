SPECIFICATION TraceSpec
