SPECIFICATION Spec
CONSTANTS
  Keys = {1, 2}
  Clients = {1, 2}
  MaxSize = 2
  Costs = {1, 2}
  TTLs = {0}
  QCap = 2
  BatchMax = 2
  MaxEnt = 4
  MaxTime = 1
  OpsPerClient = 2
  Allowed <- AllowAcct
  WithTicker = FALSE
  Thresh = 30
  AdvSteps = {1}
  StallOnly = FALSE
  Door = FALSE
  FixD2 = TRUE
  FixD6 = TRUE
  FixD7 = TRUE
  FixD16 = TRUE
  FixD10a = TRUE
  FixD20 = TRUE
VIEW view
INVARIANTS TypeOK AcctInv NotifInv NotifComplete NoBadC06 InFlightBound
