SPECIFICATION TraceSpec
