----------------------------- MODULE LoadFlight -----------------------------
(* The loading Get of LoadingStore (internal/store.go) composed with the single-flight      *)
(* group of the shard (internal/singleflight.go), for one key: the steps of one call are    *)
(*   Lookup   getFromShard under the shard read lock: hit -> return, miss -> continue       *)
(*   Do       under the group mutex: join the call in the table, or create one (leader)     *)
(*   Lock     leader: shard write lock                                                     *)
(*   Load     leader: loader runs, a successful load is stored (no second lookup); with     *)
(*            Forget = TRUE the call leaves the table in the same critical section          *)
(*   Unlock   leader: shard lock released                                                  *)
(*   Finish   leader: under the group mutex the waiters are released and the call leaves    *)
(*            the table (if it is still there)                                             *)
(*   Woken    follower: returns the call's value or error                                   *)
(* next to Set, Delete, plain Get and losses (eviction / expiry) on the same key.           *)
(*                                                                                         *)
(* Between Unlock and Finish the loaded value is visible in the map, can be deleted or      *)
(* evicted again, and the call is still in the table: with Forget = FALSE (the code as it   *)
(* was, D21) a caller that misses in that window joins the finished call and is handed the  *)
(* value that has just been deleted.  Served is the invariant of C01 for one key: a value   *)
(* a call returns was held by the key at some moment between the call and its return.       *)
(* OneLoader (C13): at most one loader invocation at a time; NotCached (C13): a failed load *)
(* stores nothing and leaves neither lock nor table entry behind (checked as deadlock       *)
(* freedom plus Quiet).                                                                     *)
EXTENDS Integers, FiniteSets, TLC

CONSTANTS Clients, MaxOps, MaxVal, Forget

VARIABLES val,      \* value the key holds (0 = absent)
          nextv,    \* next fresh value
          lock,     \* shard lock: 0 free, c = write-held by the leader c (read sections are atomic steps)
          tbl,      \* call in the single-flight table (0 = none); a call is named after its leader
          cval,     \* [leader -> value of its call (0 = none yet / failed)]
          cdone,    \* [leader -> waiters released]
          pc, mycall, nops,
          cand,     \* ghost: values (0 = absent) the key held at some moment since the client's call began
          bad       \* ghost: <<client, returned value>> of a return not justified by cand

vars == <<val, nextv, lock, tbl, cval, cdone, pc, mycall, nops, cand, bad>>

Busy(c) == pc[c] # "idle"
\* every change of the key's content is seen by every call in flight
Note(v) == cand' = [c \in Clients |-> IF Busy(c) THEN cand[c] \cup {v} ELSE cand[c]]
Begin(c, to) == /\ pc[c] = "idle" /\ nops[c] < MaxOps
                /\ nops' = [nops EXCEPT ![c] = @ + 1]
                /\ pc' = [pc EXCEPT ![c] = to]
                /\ cand' = [cand EXCEPT ![c] = {val}]
Ret(c, v) == /\ pc' = [pc EXCEPT ![c] = "idle"]
             /\ bad' = IF v \in cand[c] THEN bad ELSE bad \cup {<<c, v>>}

Init == /\ val = 0 /\ nextv = 1 /\ lock = 0 /\ tbl = 0
        /\ cval = [c \in Clients |-> 0] /\ cdone = [c \in Clients |-> FALSE]
        /\ pc = [c \in Clients |-> "idle"] /\ mycall = [c \in Clients |-> 0]
        /\ nops = [c \in Clients |-> 0] /\ cand = [c \in Clients |-> {}] /\ bad = {}

\* --- plain operations: one shard critical section each ------------------------------------
Set(c) == /\ lock = 0 /\ nextv <= MaxVal /\ pc[c] = "idle" /\ nops[c] < MaxOps
          /\ nops' = [nops EXCEPT ![c] = @ + 1]
          /\ val' = nextv /\ nextv' = nextv + 1
          /\ Note(nextv)
          /\ UNCHANGED <<lock, tbl, cval, cdone, pc, mycall, bad>>
Delete(c) == /\ lock = 0 /\ pc[c] = "idle" /\ nops[c] < MaxOps
             /\ nops' = [nops EXCEPT ![c] = @ + 1]
             /\ val' = 0 /\ Note(0)
             /\ UNCHANGED <<nextv, lock, tbl, cval, cdone, pc, mycall, bad>>
Lose == /\ lock = 0 /\ val # 0 /\ val' = 0 /\ Note(0)       \* eviction or expiry
        /\ UNCHANGED <<nextv, lock, tbl, cval, cdone, pc, mycall, nops, bad>>

\* --- loading Get ---------------------------------------------------------------------------
LBegin(c) == Begin(c, "lookup") /\ UNCHANGED <<val, nextv, lock, tbl, cval, cdone, mycall, bad>>
Lookup(c) == /\ pc[c] = "lookup" /\ lock = 0
             /\ IF val # 0 THEN Ret(c, val) ELSE pc' = [pc EXCEPT ![c] = "do"] /\ UNCHANGED bad
             /\ UNCHANGED <<val, nextv, lock, tbl, cval, cdone, mycall, nops, cand>>
Do(c) == /\ pc[c] = "do"
         /\ IF tbl # 0
              THEN /\ mycall' = [mycall EXCEPT ![c] = tbl] /\ pc' = [pc EXCEPT ![c] = "wait"]
                   /\ UNCHANGED <<tbl, cval, cdone>>
              ELSE /\ tbl' = c /\ mycall' = [mycall EXCEPT ![c] = c] /\ pc' = [pc EXCEPT ![c] = "lead"]
                   /\ cval' = [cval EXCEPT ![c] = 0] /\ cdone' = [cdone EXCEPT ![c] = FALSE]
         /\ UNCHANGED <<val, nextv, lock, nops, cand, bad>>
Lock(c) == /\ pc[c] = "lead" /\ lock = 0 /\ lock' = c /\ pc' = [pc EXCEPT ![c] = "load"]
           /\ UNCHANGED <<val, nextv, tbl, cval, cdone, mycall, nops, cand, bad>>
LoadOk(c) == /\ pc[c] = "load" /\ nextv <= MaxVal
             /\ val' = nextv /\ nextv' = nextv + 1 /\ Note(nextv)
             /\ cval' = [cval EXCEPT ![c] = nextv]
             /\ tbl' = IF Forget /\ tbl = c THEN 0 ELSE tbl
             /\ pc' = [pc EXCEPT ![c] = "unlock"]
             /\ UNCHANGED <<lock, cdone, mycall, nops, bad>>
LoadErr(c) == /\ pc[c] = "load"
              /\ tbl' = IF Forget /\ tbl = c THEN 0 ELSE tbl
              /\ pc' = [pc EXCEPT ![c] = "unlock"]
              /\ UNCHANGED <<val, nextv, lock, cval, cdone, mycall, nops, cand, bad>>
Unlock(c) == /\ pc[c] = "unlock" /\ lock' = 0 /\ pc' = [pc EXCEPT ![c] = "finish"]
             /\ UNCHANGED <<val, nextv, tbl, cval, cdone, mycall, nops, cand, bad>>
Finish(c) == /\ pc[c] = "finish"
             /\ cdone' = [cdone EXCEPT ![c] = TRUE]
             /\ tbl' = IF tbl = c THEN 0 ELSE tbl
             /\ IF cval[c] # 0 THEN Ret(c, cval[c]) ELSE pc' = [pc EXCEPT ![c] = "idle"] /\ UNCHANGED bad
             /\ UNCHANGED <<val, nextv, lock, cval, mycall, nops, cand>>
Woken(c) == /\ pc[c] = "wait" /\ cdone[mycall[c]]
            /\ IF cval[mycall[c]] # 0 THEN Ret(c, cval[mycall[c]]) ELSE pc' = [pc EXCEPT ![c] = "idle"] /\ UNCHANGED bad
            /\ UNCHANGED <<val, nextv, lock, tbl, cval, cdone, mycall, nops, cand>>

\* a leader may not start a second call while followers of its first one still wait (the call record is per leader)
NoWaiters(c) == \A d \in Clients : ~(pc[d] = "wait" /\ mycall[d] = c)

Next == \E c \in Clients :
          \/ Set(c) \/ Delete(c)
          \/ (NoWaiters(c) /\ LBegin(c)) \/ Lookup(c) \/ Do(c) \/ Lock(c) \/ LoadOk(c) \/ LoadErr(c)
          \/ Unlock(c) \/ Finish(c) \/ Woken(c)
        \/ Lose

Spec == Init /\ [][Next]_vars /\ WF_vars(Next)

Served == bad = {}
OneLoader == Cardinality({c \in Clients : pc[c] \in {"load", "unlock"}}) <= 1
Quiet == (\A c \in Clients : pc[c] = "idle") => (lock = 0 /\ tbl = 0)
\* every call returns (the loader itself always returns in this model)
Returns == \A c \in Clients : pc[c] # "idle" ~> pc[c] = "idle"
=============================================================================
