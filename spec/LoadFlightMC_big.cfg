SPECIFICATION Spec
CONSTANTS
  Clients = {1, 2, 3}
  MaxOps = 2
  MaxVal = 3
  Forget = TRUE
INVARIANTS Served OneLoader Quiet
PROPERTY Returns
