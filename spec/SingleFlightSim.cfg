SPECIFICATION SimSpec
CONSTANTS
  Callers = {1, 2, 3, 4}
  Keys = {1, 2}
  Recs = {1, 2, 3, 4, 5, 6, 7, 8, 9, 10, 11, 12}
  MaxCalls = 3
  Outcomes = {"ok", "err", "panic", "goexit"}
  Depth = 80
CONSTRAINT Export
