------------------------------- MODULE RBMutex -------------------------------
(* The reader-biased reader/writer lock that protects every shard map (internal/rbmutex.go,  *)
(* a BRAVO variant), at the grain of its atomic operations.  C01 and C19 rest on it: a writer   *)
(* inside Lock..Unlock excludes every reader inside RLock..RUnlock and every other writer.      *)
(*                                                                                         *)
(* State:  rbias (1 = readers may use the slot fast path), slots (per-slot reader counters),    *)
(*         the underlying sync.RWMutex as (rwR readers, rwW writer held), inh (the clock is      *)
(*         still before inhibitUntil).                                                          *)
(* Reader  fast path: load rbias; for each slot from a base: load counter, CAS +1; on success   *)
(*         load rbias AGAIN - 1: locked through the slot, 0: roll the counter back and take the  *)
(*         slow path.  Slow path: rw.RLock; if rbias = 0 and the inhibition is over, rbias := 1. *)
(* Writer  rw.Lock; if rbias = 1: rbias := 0, then wait slot by slot until its counter is 0,     *)
(*         set the inhibition.  Unlock: rw.Unlock.                                              *)
(* TryLock / TryRLock are the non-blocking variants (TryLock rolls rbias back to 1 and gives up  *)
(* when it finds a reader in a slot).                                                           *)
(* rw.Lock / rw.RLock are single steps enabled when the RWMutex can be acquired; writer          *)
(* preference of sync.RWMutex (a blocked Lock keeps new readers out) is a fairness matter and is  *)
(* not modelled.  Recheck = FALSE, Revoke = FALSE, Rollback = FALSE are the designs without the   *)
(* second rbias load / without waiting for the slots / without the counter roll-back: each must   *)
(* violate an invariant (non-vacuity configurations).                                           *)
EXTENDS Integers, FiniteSets, TLC

CONSTANTS
  \* @type: Set(PROC);
  Readers,
  \* @type: Set(PROC);
  Writers,
  \* @type: Int;
  NS,
  \* @type: Bool;
  Recheck,
  \* @type: Bool;
  Revoke,
  \* @type: Bool;
  Rollback

Procs == Readers \cup Writers
Slots == 0..(NS - 1)

VARIABLES
  \* @type: Int;
  rbias,
  \* @type: Int -> Int;
  slots,
  \* @type: Int;
  rwR,
  \* @type: Bool;
  rwW,
  \* @type: Bool;
  inh,
  \* @type: PROC -> Str;
  pc,
  \* @type: PROC -> Int;
  base,
  \* @type: PROC -> Int;
  idx,
  \* @type: PROC -> Int;
  val,
  \* @type: PROC -> Int;
  tok
vars == <<rbias, slots, rwR, rwW, inh, pc, base, idx, val, tok>>

Init == /\ rbias = 1 /\ slots = [s \in Slots |-> 0] /\ rwR = 0 /\ rwW = FALSE /\ inh = FALSE
        /\ pc = [p \in Procs |-> "idle"] /\ base = [p \in Procs |-> 0] /\ idx = [p \in Procs |-> 0]
        /\ val = [p \in Procs |-> 0] /\ tok = [p \in Procs |-> -1]

Slot(p) == (base[p] + idx[p]) % NS
Go(p, l) == pc' = [pc EXCEPT ![p] = l]

----------------------------------------------------------------------------
(* reader: RLock / TryRLock *)
\* call: the token from the pool (or a fresh random one) gives the first slot
RBegin(p, try, b) ==
  /\ p \in Readers /\ pc[p] = "idle"
  /\ Go(p, IF try THEN "t_bias" ELSE "r_bias") /\ base' = [base EXCEPT ![p] = b] /\ idx' = [idx EXCEPT ![p] = 0]
  /\ UNCHANGED <<rbias, slots, rwR, rwW, inh, val, tok>>

\* atomic.LoadInt32(&rbias)
RLoadBias(p) ==
  /\ pc[p] \in {"r_bias", "t_bias"}
  /\ LET t == pc[p] = "t_bias" IN
     Go(p, IF rbias = 1 THEN (IF t THEN "t_load" ELSE "r_load") ELSE (IF t THEN "t_slow" ELSE "r_slow"))
  /\ UNCHANGED <<rbias, slots, rwR, rwW, inh, base, idx, val, tok>>

\* atomic.LoadInt32(&slot.mu)
RLoadSlot(p) ==
  /\ pc[p] \in {"r_load", "t_load"}
  /\ val' = [val EXCEPT ![p] = slots[Slot(p)]]
  /\ Go(p, IF pc[p] = "t_load" THEN "t_cas" ELSE "r_cas")
  /\ UNCHANGED <<rbias, slots, rwR, rwW, inh, base, idx, tok>>

\* CompareAndSwap(slot, v, v+1): on failure the next slot, after the last one the slow path
RCas(p) ==
  /\ pc[p] \in {"r_cas", "t_cas"}
  /\ LET t == pc[p] = "t_cas" IN
     IF slots[Slot(p)] = val[p]
     THEN /\ slots' = [slots EXCEPT ![Slot(p)] = @ + 1]
          /\ Go(p, IF Recheck THEN (IF t THEN "t_re" ELSE "r_re") ELSE "rcs")
          /\ tok' = IF Recheck THEN tok ELSE [tok EXCEPT ![p] = Slot(p)]
          /\ UNCHANGED idx
     ELSE /\ UNCHANGED <<slots, tok>>
          /\ IF idx[p] + 1 < NS
             THEN idx' = [idx EXCEPT ![p] = @ + 1] /\ Go(p, IF t THEN "t_load" ELSE "r_load")
             ELSE UNCHANGED idx /\ Go(p, IF t THEN "t_slow" ELSE "r_slow")
  /\ UNCHANGED <<rbias, rwR, rwW, inh, base, val>>

\* second load of rbias after the counter was raised
RRecheck(p) ==
  /\ pc[p] \in {"r_re", "t_re"}
  /\ IF rbias = 1
     THEN Go(p, "rcs") /\ tok' = [tok EXCEPT ![p] = Slot(p)]
     ELSE Go(p, IF pc[p] = "t_re" THEN "t_back" ELSE "r_back") /\ UNCHANGED tok
  /\ UNCHANGED <<rbias, slots, rwR, rwW, inh, base, idx, val>>

\* atomic.AddInt32(&slot.mu, -1): roll back, then the slow path
RBack(p) ==
  /\ pc[p] \in {"r_back", "t_back"}
  /\ slots' = IF Rollback THEN [slots EXCEPT ![Slot(p)] = @ - 1] ELSE slots
  /\ Go(p, IF pc[p] = "t_back" THEN "t_slow" ELSE "r_slow")
  /\ UNCHANGED <<rbias, rwR, rwW, inh, base, idx, val, tok>>

\* rw.RLock() - blocks while a writer holds the RWMutex
RSlowLock(p) ==
  /\ pc[p] = "r_slow" /\ ~rwW
  /\ rwR' = rwR + 1 /\ Go(p, "s_bias")
  /\ UNCHANGED <<rbias, slots, rwW, inh, base, idx, val, tok>>

\* rw.TryRLock()
RSlowTry(p) ==
  /\ pc[p] = "t_slow"
  /\ IF rwW THEN Go(p, "idle") /\ UNCHANGED rwR          \* TryRLock reports failure
     ELSE rwR' = rwR + 1 /\ Go(p, "s_bias")
  /\ UNCHANGED <<rbias, slots, rwW, inh, base, idx, val, tok>>

\* if rbias = 0 and the inhibition is over: re-enable the bias (load, then store)
RSlowBias(p) ==
  /\ pc[p] = "s_bias"
  /\ Go(p, IF rbias = 0 /\ ~inh THEN "s_set" ELSE "rcs")
  /\ tok' = [tok EXCEPT ![p] = -1]
  /\ UNCHANGED <<rbias, slots, rwR, rwW, inh, base, idx, val>>

RSlowSet(p) ==
  /\ pc[p] = "s_set"
  /\ rbias' = 1 /\ Go(p, "rcs")
  /\ UNCHANGED <<slots, rwR, rwW, inh, base, idx, val, tok>>

\* RUnlock(token)
RUnlock(p) ==
  /\ pc[p] = "rcs"
  /\ IF tok[p] = -1
     THEN rwR' = rwR - 1 /\ UNCHANGED slots
     ELSE slots' = [slots EXCEPT ![tok[p]] = @ - 1] /\ UNCHANGED rwR
  /\ Go(p, "idle")
  /\ UNCHANGED <<rbias, rwW, inh, base, idx, val, tok>>

----------------------------------------------------------------------------
(* writer: Lock / TryLock *)
\* rw.Lock() - blocks while readers or a writer hold the RWMutex
WLock(p) ==
  /\ p \in Writers /\ pc[p] = "idle" /\ ~rwW /\ rwR = 0
  /\ rwW' = TRUE /\ Go(p, "w_bias")
  /\ UNCHANGED <<rbias, slots, rwR, inh, base, idx, val, tok>>

\* rw.TryLock()
WTry(p) ==
  /\ p \in Writers /\ pc[p] = "idle"
  /\ IF ~rwW /\ rwR = 0 THEN rwW' = TRUE /\ Go(p, "y_bias") ELSE UNCHANGED <<rwW, pc>>
  /\ UNCHANGED <<rbias, slots, rwR, inh, base, idx, val, tok>>

WLoadBias(p) ==
  /\ pc[p] \in {"w_bias", "y_bias"}
  /\ Go(p, IF rbias = 1 THEN (IF pc[p] = "y_bias" THEN "y_clear" ELSE "w_clear") ELSE "wcs")
  /\ UNCHANGED <<rbias, slots, rwR, rwW, inh, base, idx, val, tok>>

WClear(p) ==
  /\ pc[p] \in {"w_clear", "y_clear"}
  /\ rbias' = 0 /\ idx' = [idx EXCEPT ![p] = 0]
  /\ Go(p, IF ~Revoke THEN "wcs" ELSE IF pc[p] = "y_clear" THEN "y_scan" ELSE "w_spin")
  /\ UNCHANGED <<slots, rwR, rwW, inh, base, val, tok>>

\* for atomic.LoadInt32(&slot.mu) > 0 { Gosched }: one load per step
WSpin(p) ==
  /\ pc[p] = "w_spin"
  /\ IF slots[idx[p]] > 0 THEN UNCHANGED <<idx, pc, inh>>
     ELSE IF idx[p] + 1 < NS THEN idx' = [idx EXCEPT ![p] = @ + 1] /\ UNCHANGED <<pc, inh>>
     ELSE Go(p, "wcs") /\ inh' = TRUE /\ UNCHANGED idx            \* inhibitUntil := now + ...
  /\ UNCHANGED <<rbias, slots, rwR, rwW, base, val, tok>>

\* TryLock: a reader in a slot -> roll back (rbias := 1, rw.Unlock) and fail
WScan(p) ==
  /\ pc[p] = "y_scan"
  /\ IF slots[idx[p]] > 0 THEN Go(p, "y_back") /\ UNCHANGED idx
     ELSE IF idx[p] + 1 < NS THEN idx' = [idx EXCEPT ![p] = @ + 1] /\ UNCHANGED pc
     ELSE Go(p, "wcs") /\ UNCHANGED idx
  /\ UNCHANGED <<rbias, slots, rwR, rwW, inh, base, val, tok>>

WTryBack(p) ==
  /\ pc[p] = "y_back"
  /\ rbias' = 1 /\ Go(p, "y_unl")
  /\ UNCHANGED <<slots, rwR, rwW, inh, base, idx, val, tok>>

WTryUnl(p) ==
  /\ pc[p] = "y_unl"
  /\ rwW' = FALSE /\ Go(p, "idle")
  /\ UNCHANGED <<rbias, slots, rwR, inh, base, idx, val, tok>>

WUnlock(p) ==
  /\ pc[p] = "wcs"
  /\ rwW' = FALSE /\ Go(p, "idle")
  /\ UNCHANGED <<rbias, slots, rwR, inh, base, idx, val, tok>>

\* the inhibition period ends
Expire == inh /\ inh' = FALSE /\ UNCHANGED <<rbias, slots, rwR, rwW, pc, base, idx, val, tok>>

Step(p) == \/ \E b \in Slots, t \in BOOLEAN : RBegin(p, t, b)
           \/ RLoadBias(p) \/ RLoadSlot(p) \/ RCas(p) \/ RRecheck(p) \/ RBack(p)
           \/ RSlowLock(p) \/ RSlowTry(p) \/ RSlowBias(p) \/ RSlowSet(p) \/ RUnlock(p)
           \/ WLock(p) \/ WTry(p) \/ WLoadBias(p) \/ WClear(p) \/ WSpin(p) \/ WScan(p) \/ WTryBack(p) \/ WTryUnl(p) \/ WUnlock(p)
Next == (\E p \in Procs : Step(p)) \/ Expire
Spec == Init /\ [][Next]_vars
FairSpec == Spec /\ \A p \in Procs : WF_vars(Step(p))

----------------------------------------------------------------------------
InR == {p \in Procs : pc[p] = "rcs"}
InW == {p \in Procs : pc[p] = "wcs"}
\* the lock's contract
Mutex == Cardinality(InW) <= 1 /\ (InW # {} => InR = {})
\* counters: a slot counts the fast readers inside plus those between a successful CAS and their roll-back
Counts == /\ \A s \in Slots : slots[s] >= 0
          /\ \A s \in Slots : slots[s] = Cardinality({p \in Procs : (pc[p] = "rcs" /\ tok[p] = s)
                                                       \/ (pc[p] \in {"r_re", "t_re", "r_back", "t_back"} /\ Slot(p) = s)})
          /\ rwR = Cardinality({p \in Procs : pc[p] \in {"s_bias", "s_set"} \/ (pc[p] = "rcs" /\ tok[p] = -1)})
          /\ rwW = (\E p \in Procs : pc[p] \in {"w_bias", "y_bias", "w_clear", "y_clear", "w_spin", "y_scan", "y_back", "y_unl", "wcs"})
\* a writer inside its critical section has switched the bias off (so that no reader passes the re-check)
BiasOff == InW # {} => rbias = 0
\* liveness (FairSpec): a writer that took the RWMutex gets in; a reader that started gets in or gives up
WriterEnters == \A p \in Writers : (pc[p] \in {"w_bias", "w_clear", "w_spin"}) ~> (pc[p] = "wcs")
=============================================================================
