SPECIFICATION SimSpec
CONSTANTS
  Cap = 16
  Readers = {1, 2, 3}
  MaxAdds = 44
  Fixed = TRUE
  Depth = 1600
  LagSets <- LagLast
CONSTRAINT Export
