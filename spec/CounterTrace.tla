---------------------------- MODULE CounterTrace ----------------------------
(* Trace validation for the striped counter (C16).  "counter" lines: procs goroutines each     *)
(* added `adds` times to a real UnsignedCounter; after they joined, Value() must be              *)
(* procs * adds (Counter.tla NoLostUpdate at quiescence).  "getburst" lines: concurrent Gets on   *)
(* a real cache; Stats() must have grown by exactly the hits and misses the callers saw.          *)
EXTENDS Integers, Sequences, FiniteSets, TLC, Json, IOUtils
Trace == ndJsonDeserialize(IOEnv.VERIF_TRACE)
VARIABLES l, viol, nb, done
vars == <<l, viol, nb, done>>
Ev == Trace[l]
V(id, k) == viol \cup {<<"C16", id, l, k>>}
TraceInit == l = 1 /\ viol = {} /\ nb = 0 /\ done = FALSE
\* procs * adds can exceed TLC's integers: compare per process
Step == /\ l <= Len(Trace) /\ l' = l + 1 /\ UNCHANGED done
        /\ CASE Ev.ev = "counter" ->
                  /\ viol' = IF Ev.value % Ev.procs = 0 /\ Ev.value \div Ev.procs = Ev.adds THEN viol
                             ELSE V(Ev.id, "striped_counter_lost_or_invented_increments")
                  /\ nb' = nb + 1
             [] Ev.ev = "getburst" ->
                  /\ viol' = IF Ev.dhits = Ev.hits /\ Ev.dmisses = Ev.misses THEN viol
                             ELSE V(Ev.id, "hit_miss_counters_differ_from_calls_in_concurrent_burst")
                  /\ nb' = nb + 1
             [] OTHER -> UNCHANGED <<viol, nb>>
Finish == /\ l = Len(Trace) + 1 /\ ~done /\ done' = TRUE
          /\ JsonSerialize(IOEnv.VERIF_RESULT, [lines |-> Len(Trace), consumed |-> l - 1, viol |-> viol, traces |-> nb])
          /\ UNCHANGED <<l, viol, nb>>
TraceSpec == TraceInit /\ [][Step \/ Finish]_vars
=============================================================================
