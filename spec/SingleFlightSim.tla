--------------------------- MODULE SingleFlightSim ---------------------------
EXTENDS SingleFlight, Json, IOUtils
CONSTANT Depth
VARIABLE hist
H(r) == hist' = Append(hist, r)
SimInit == Init /\ hist = <<[a |-> "cfg"]>>
SimNext ==
  \/ \E c \in Callers, k \in Keys : Enter(c, k) /\ H([a |-> "enter", c |-> c, k |-> k])
  \/ \E c \in Callers : LoadStart(c) /\ H([a |-> "loadstart", c |-> c])
  \/ \E c \in Callers, o \in Outcomes : LoadEnd(c, o) /\ H([a |-> "loadend", c |-> c, o |-> o])
  \/ \E c \in Callers : Finish(c) /\ H([a |-> "finish", c |-> c])
  \/ \E c \in Callers : LeaderRet(c) /\ hist' = hist
  \/ \E c \in Callers : Wake(c) /\ H([a |-> "wake", c |-> c])
SimSpec == SimInit /\ [][SimNext]_<<vars, hist>>
Export == IF TLCGet("level") >= Depth \/ ~ENABLED SimNext
          THEN ndJsonSerialize(IOEnv.VERIF_SIMDIR \o "/sim_" \o ToString(TLCGet("stats").traces) \o ".ndjson", hist)
          ELSE TRUE
=============================================================================
