SPECIFICATION Spec
CONSTANTS
  Clients = {1, 2}
  MaxOps = 3
  MaxVal = 3
  Forget = FALSE
INVARIANTS Served OneLoader Quiet
