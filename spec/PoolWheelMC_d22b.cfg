SPECIFICATION Spec
CONSTANTS
  FixD22 = FALSE
  MaxLife = 3
INVARIANTS NoTtlNeverExpired
CHECK_DEADLOCK FALSE
