------------------------------ MODULE SketchMC ------------------------------
(* Exhaustive configuration: a 16-word table, three keys with overlapping counters,       *)
(* scaled sample size, all sequences of add / bulk add / grow up to MaxOps.               *)
EXTENDS Sketch

CONSTANTS SampleScaled, MaxOps
VARIABLE ops

K1 == << <<0,1>>, <<2,3>>, <<4,5>>, <<6,7>> >>
K2 == << <<0,1>>, <<3,3>>, <<4,2>>, <<7,7>> >>
K3 == << <<1,0>>, <<2,3>>, <<5,5>>, <<6,7>> >>
Keys == {K1, K2, K3}

MCInit == tbl = <<>> /\ len = 16 /\ sample = SampleScaled /\ additions = 0 /\ rec = <<>> /\ ops = 0

MCNext ==
  /\ ops < MaxOps /\ ops' = ops + 1
  /\ \/ \E k \in Keys : Add(k)
     \/ \E k \in Keys, n \in {1, 7, 15} : Addn(k, n)

MCSpec == MCInit /\ [][MCNext]_<<svars, ops>>
KeysOK == \A k \in Keys : WellFormed(k, 16)
=============================================================================
