----------------------------- MODULE ListTrace -----------------------------
(* Trace validation for List.tla: every line is one call on a real List (internal/list.go) *)
(* with the state the harness read back afterwards - forward and backward traversal of     *)
(* every list, recorded len and count, the flag byte and the policy weight of every entry. *)
(* The specification performs the same call at pointer grain.  A logged state that breaks  *)
(* one of the structural invariants is a violation (C07 for the regions, C04 for the wheel *)
(* slots); a logged state that merely differs from the specification's is counted as a     *)
(* divergence (the order inside a list is not part of C07).  After a divergence the rest   *)
(* of that history is only checked for the invariants of the logged state.                 *)
EXTENDS List, TLC, Json, IOUtils

Trace == ndJsonDeserialize(IOEnv.VERIF_TRACE)
TrLType == <<4, 1, 2, 3, 3>>

VARIABLES i, tid, viol, div, firstdiv, follow, done
tvars == <<vars, i, tid, viol, div, firstdiv, follow, done>>
Ev == Trace[i]

Bit(f, b) == (f \div (2 ^ b)) % 2 = 1
FlagSet(f) == (IF Bit(f, 1) THEN {"probation"} ELSE {}) \cup (IF Bit(f, 2) THEN {"protected"} ELSE {})
        \cup (IF Bit(f, 3) THEN {"removed"} ELSE {}) \cup (IF Bit(f, 4) THEN {"nvm"} ELSE {})
        \cup (IF Bit(f, 5) THEN {"deleted"} ELSE {}) \cup (IF Bit(f, 6) THEN {"window"} ELSE {})
        \cup (IF Bit(f, 0) THEN {"root"} ELSE {})
SeqSet(s) == {s[j] : j \in 1..Len(s)}
RevS(s) == [j \in 1..Len(s) |-> s[Len(s) + 1 - j]]
RECURSIVE SumL(_, _)
SumL(s, w) == IF s = <<>> THEN 0 ELSE w[Head(s)] + SumL(Tail(s), w)

(* invariants of the logged state alone *)
LoggedViol(e) ==
  UNION {
    (IF e.fwd[l] = RevS(e.bwd[l]) THEN {} ELSE {<<tid, i, l, "forward_and_backward_traversal_of_a_list_differ">>})
    \cup (IF Cardinality(SeqSet(e.fwd[l])) = Len(e.fwd[l]) THEN {} ELSE {<<tid, i, l, "entry_linked_twice_into_a_list">>})
    \cup (IF e.cnt[l] = Len(e.fwd[l]) THEN {} ELSE {<<tid, i, l, "recorded_count_differs_from_number_of_members">>})
    \cup (IF LS(l) = 2 \/ e.len[l] = SumL(e.fwd[l], e.pw) THEN {}
          ELSE {<<tid, i, l, "recorded_size_differs_from_sum_of_member_weights">>})
    \cup (IF \E l2 \in Lists : l2 # l /\ LS(l2) = LS(l) /\ SeqSet(e.fwd[l]) \cap SeqSet(e.fwd[l2]) # {}
          THEN {<<tid, i, l, "entry_in_two_lists_of_one_link_set">>} ELSE {})
    \cup (IF LS(l) = 1 /\ \E x \in SeqSet(e.fwd[l]) : FlagSet(e.flags[x]) \cap RegionFlags # {RegionFlag(l)}
          THEN {<<tid, i, l, "region_bit_differs_from_the_list_holding_the_entry">>} ELSE {})
    : l \in Lists }
  \cup (IF \E x \in Ents : FlagSet(e.flags[x]) \cap RegionFlags # {}
                 /\ ~\E l \in Lists : LS(l) = 1 /\ x \in SeqSet(e.fwd[l])
        THEN {<<tid, i, 0, "region_bit_set_on_entry_in_no_region">>} ELSE {})

Same(e) ==
  /\ \A l \in Lists : Fwd(l)' = e.fwd[l] /\ Bwd(l)' = e.bwd[l] /\ cnt'[l] = e.cnt[l] /\ len'[l] = e.len[l]
  /\ \A x \in Ents : flag'[x] = FlagSet(e.flags[x]) /\ pw'[x] = e.pw[x]

TraceInit ==
  /\ nxt = [s \in 1..2 |-> [n \in Nodes |-> IF n < 0 /\ LS(0 - n) = s THEN n ELSE NIL]]
  /\ prv = nxt
  /\ len = [l \in Lists |-> 0] /\ cnt = [l \in Lists |-> 0]
  /\ pw = [e \in Ents |-> 1] /\ flag = [e \in Ents |-> {}]
  /\ i = 1 /\ tid = 0 /\ viol = {} /\ div = 0 /\ firstdiv = <<>> /\ follow = TRUE /\ done = FALSE

Step == i <= Len(Trace) /\ i' = i + 1 /\ UNCHANGED done

TrNew ==
  /\ Step /\ Ev.op = "new"
  /\ nxt' = [s \in 1..2 |-> [n \in Nodes |-> IF n < 0 /\ LS(0 - n) = s THEN n ELSE NIL]]
  /\ prv' = nxt'
  /\ len' = [l \in Lists |-> 0] /\ cnt' = [l \in Lists |-> 0]
  /\ pw' = [e \in Ents |-> Ev.pw[e]] /\ flag' = [e \in Ents |-> {}]
  /\ tid' = Ev.id /\ follow' = TRUE
  /\ UNCHANGED <<viol, div, firstdiv>>

Act(e) ==
  CASE e.op = "pushfront" -> Insert(e.l, e.e, Root(e.l))
    [] e.op = "pushback" -> Insert(e.l, e.e, prv[LS(e.l)][Root(e.l)])
    [] e.op = "remove" -> RemoveE(e.l, e.e)
    [] e.op = "tofront" -> Move(e.l, e.e, Root(e.l))
    [] e.op = "toback" -> Move(e.l, e.e, prv[LS(e.l)][Root(e.l)])
    [] e.op = "before" -> Move(e.l, e.e, prv[LS(e.l)][e.m])
    [] e.op = "after" -> Move(e.l, e.e, e.m)
    [] e.op = "poptail" -> PopTail(e.l)
    [] e.op = "cost" -> /\ pw' = [pw EXCEPT ![e.e] = e.w]
                        /\ len' = [len EXCEPT ![e.l] = @ + (e.w - pw[e.e])]
                        /\ UNCHANGED <<nxt, prv, cnt, flag>>
    [] e.op = "flag" -> SetOther(e.e, e.f, e.b)

Ops == {"pushfront", "pushback", "remove", "tofront", "toback", "before", "after", "poptail", "cost", "flag"}

TrOp ==
  /\ Step /\ Ev.op \in Ops /\ follow
  /\ Act(Ev)
  /\ LET ok == Same(Ev) IN
     /\ div' = IF ok THEN div ELSE div + 1
     /\ firstdiv' = IF ok \/ firstdiv # <<>> THEN firstdiv ELSE <<tid, i, Ev.op>>
     /\ follow' = ok
  /\ viol' = viol \cup LoggedViol(Ev)
          \cup (IF Ev.op = "poptail" /\ Ev.ret # (IF prv[LS(Ev.l)][Root(Ev.l)] > 0 THEN prv[LS(Ev.l)][Root(Ev.l)] ELSE 0)
                THEN {<<tid, i, Ev.l, "poptail_returned_other_than_the_last_member">>} ELSE {})
  /\ UNCHANGED tid

TrOpLost ==     \* after a divergence: only the logged state is judged
  /\ Step /\ Ev.op \in Ops /\ ~follow
  /\ viol' = viol \cup LoggedViol(Ev)
  /\ UNCHANGED <<vars, tid, div, firstdiv, follow>>

TrPanic ==
  /\ Step /\ Ev.op = "panic"
  /\ viol' = viol \cup {<<tid, i, 0, "list_operation_panicked">>}
  /\ follow' = FALSE
  /\ UNCHANGED <<vars, tid, div, firstdiv>>

Finish ==
  /\ i = Len(Trace) + 1 /\ ~done /\ done' = TRUE
  /\ JsonSerialize(IOEnv.VERIF_RESULT,
        [lines |-> Len(Trace), consumed |-> i - 1, div |-> div, firstdiv |-> firstdiv, viol |-> viol])
  /\ UNCHANGED <<vars, i, tid, viol, div, firstdiv, follow>>

TraceNext == TrNew \/ TrOp \/ TrOpLost \/ TrPanic \/ Finish
TraceSpec == TraceInit /\ [][TraceNext]_tvars
=============================================================================
