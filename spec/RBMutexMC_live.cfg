SPECIFICATION FairSpec
CONSTANTS
  Readers = {r1, r2}
  Writers = {w1}
  NS = 2
  Recheck = TRUE
  Revoke = TRUE
  Rollback = TRUE
PROPERTIES WriterEnters
