------------------------------ MODULE TinyLfu ------------------------------
(* The W-TinyLFU policy of theine-go (internal/tlfu.go, slru.go, list.go) as a sequential   *)
(* state machine.  Entries are ids 1..N with a policy weight pw; the three regions are       *)
(* sequences of ids (front first); every region keeps a RECORDED size (len) and count, which *)
(* the code maintains incrementally and which C07 requires to agree with the actual sums.    *)
(*                                                                                         *)
(* The frequency sketch is abstracted: every admit(candidate, victim) decision is an         *)
(* arbitrary boolean (ch), which covers arbitrary sketch contents and the 1/128 random        *)
(* admission.  The hill climber's float arithmetic is abstracted to an arbitrary integer      *)
(* amount, clamped exactly as climb() clamps it.                                              *)
(*                                                                                         *)
(* Operators take and return a policy state record:                                          *)
(*   [win, pb, pt : Seq(id)   lenW, lenB, lenT, cntW, cntB, cntT : recorded sizes / counts   *)
(*    capW, capT : capacities of window and protected   ws : weightedSize   amt : amount     *)
(*    pw : [id -> weight]   ev : Seq(id) evicted by the last step (callback order)           *)
(*    ok : FALSE if the eviction walk ran out of fuel (non-termination)]                     *)
EXTENDS Integers, Sequences, FiniteSets, TLC

CONSTANTS Cap,       \* MaxSize of the policy
          N,         \* entry ids 1..N
          SignedCmp  \* TRUE: total compared as signed (repaired D16); FALSE: unsigned wrap

Ids == 1..N
Nil == 0

\* NewTinyLfu(size): window = max(1, 1%), main = size - window, protected = 80% of main
InitCapW == IF Cap \div 100 < 1 THEN 1 ELSE Cap \div 100
InitCapT == ((Cap - InitCapW) * 8) \div 10

Init0 == [win |-> <<>>, pb |-> <<>>, pt |-> <<>>, lenW |-> 0, lenB |-> 0, lenT |-> 0, cntW |-> 0, cntB |-> 0, cntT |-> 0,
          capW |-> InitCapW, capT |-> InitCapT, ws |-> 0, amt |-> 0, pw |-> [e \in Ids |-> 0], ev |-> <<>>, adm |-> <<>>, ok |-> TRUE]

Over(s) == IF SignedCmp THEN s.ws > Cap ELSE (s.ws < 0 \/ s.ws > Cap)

InSeq(q, e) == \E i \in DOMAIN q : q[i] = e
Idx(q, e) == CHOOSE i \in DOMAIN q : q[i] = e
Del(q, e) == LET i == Idx(q, e) IN SubSeq(q, 1, i - 1) \o SubSeq(q, i + 1, Len(q))
Back(q) == IF q = <<>> THEN Nil ELSE q[Len(q)]
\* PrevPolicy(): the neighbour towards the front; Nil at the front
PrevIn(q, e) == IF ~InSeq(q, e) THEN Nil ELSE IF Idx(q, e) = 1 THEN Nil ELSE q[Idx(q, e) - 1]

Region(s, e) == IF InSeq(s.win, e) THEN "W" ELSE IF InSeq(s.pb, e) THEN "B" ELSE IF InSeq(s.pt, e) THEN "T" ELSE "none"
PrevOf(s, e) == IF e = Nil THEN Nil ELSE
                CASE Region(s, e) = "W" -> PrevIn(s.win, e) [] Region(s, e) = "B" -> PrevIn(s.pb, e)
                  [] Region(s, e) = "T" -> PrevIn(s.pt, e) [] OTHER -> Nil

\* list primitives (insert adds pw to the recorded len and 1 to the count; remove the opposite)
PushFrontW(s, e) == [s EXCEPT !.win = <<e>> \o s.win, !.lenW = @ + s.pw[e], !.cntW = @ + 1]
PushFrontB(s, e) == [s EXCEPT !.pb = <<e>> \o s.pb, !.lenB = @ + s.pw[e], !.cntB = @ + 1]
PushFrontT(s, e) == [s EXCEPT !.pt = <<e>> \o s.pt, !.lenT = @ + s.pw[e], !.cntT = @ + 1]
RemW(s, e) == [s EXCEPT !.win = Del(s.win, e), !.lenW = @ - s.pw[e], !.cntW = @ - 1]
RemB(s, e) == [s EXCEPT !.pb = Del(s.pb, e), !.lenB = @ - s.pw[e], !.cntB = @ - 1]
RemT(s, e) == [s EXCEPT !.pt = Del(s.pt, e), !.lenT = @ - s.pw[e], !.cntT = @ - 1]
RemAny(s, e) == CASE Region(s, e) = "W" -> RemW(s, e) [] Region(s, e) = "B" -> RemB(s, e)
                  [] Region(s, e) = "T" -> RemT(s, e) [] OTHER -> s
MoveFront(q, e) == <<e>> \o Del(q, e)

\* TinyLfu.Remove(entry, callback)
PolRemove(s, e, cb) ==
  LET s1 == RemAny(s, e) IN
  [s1 EXCEPT !.ws = @ - s.pw[e], !.ev = IF cb THEN Append(@, e) ELSE @]

\* demoteFromProtected(): while protected.Len() > capacity: PopTail -> probation.PushFront
RECURSIVE Demote(_)
Demote(s) == IF s.lenT > s.capT /\ s.pt # <<>>
             THEN LET e == Back(s.pt) IN Demote(PushFrontB(RemT(s, e), e))
             ELSE s

\* evictFromWindow(): while window.Len() > capacity: PopTail -> slru.insert; returns the first one moved
RECURSIVE EvWin(_, _)
EvWin(s, first) == IF s.lenW > s.capW /\ s.win # <<>>
                   THEN LET e == Back(s.win) IN EvWin(PushFrontB(RemW(s, e), e), IF first = Nil THEN e ELSE first)
                   ELSE <<s, first>>

\* evictFromMain(candidate): the loop, one iteration per recursion; ch = admit decisions still available
RECURSIVE EvMain(_, _, _, _, _, _, _)
EvMain(s, cand, vict, vq, cq, ch, fuel) ==
  IF ~Over(s) THEN s
  ELSE IF fuel = 0 THEN [s EXCEPT !.ok = FALSE]
  ELSE
  LET c1 == IF cand = Nil /\ cq = "B" THEN Back(s.win) ELSE cand
      q1 == IF cand = Nil /\ cq = "B" THEN "W" ELSE cq
  IN
  IF c1 = Nil /\ vict = Nil
  THEN IF vq = "B" THEN EvMain(s, c1, Back(s.pt), "T", q1, ch, fuel - 1)
       ELSE IF vq = "T" THEN EvMain(s, c1, Back(s.win), "W", q1, ch, fuel - 1)
       ELSE s                                                        \* break
  ELSE IF vict = Nil
  THEN EvMain(PolRemove(s, c1, TRUE), PrevOf(s, c1), vict, vq, q1, ch, fuel - 1)
  ELSE IF c1 = Nil
  THEN EvMain(PolRemove(s, vict, TRUE), c1, PrevOf(s, vict), vq, q1, ch, fuel - 1)
  ELSE IF vict = c1
  THEN EvMain(PolRemove(s, c1, TRUE), Nil, PrevOf(s, vict), vq, q1, ch, fuel - 1)
  ELSE IF s.pw[c1] > s.ws                                            \* candidate.policyWeight > int64(weightedSize)
  THEN EvMain(PolRemove(s, c1, TRUE), PrevOf(s, c1), vict, vq, q1, ch, fuel - 1)
  ELSE LET adm == IF ch = <<>> THEN FALSE ELSE Head(ch)
           rest == IF ch = <<>> THEN <<>> ELSE Tail(ch)
           sa == [s EXCEPT !.adm = Append(@, <<c1, vict, adm>>)]     \* the decision taken, for configurations with exact frequencies
       IN IF adm
          THEN \* victim evicted; the candidate stays and the walk moves on (prev taken after the removal)
               LET s2 == PolRemove(sa, vict, TRUE) IN
               EvMain(s2, PrevOf(s2, c1), PrevOf(s, vict), vq, q1, rest, fuel - 1)
          ELSE EvMain(PolRemove(sa, c1, TRUE), PrevOf(s, c1), vict, vq, q1, rest, fuel - 1)

\* EvictEntries()
Evict(s, ch) == LET r == EvWin(s, Nil) IN EvMain(r[1], r[2], Back(r[1].pb), "B", "B", ch, 4 * N + 8)

\* climb() clamps, then resizeWindow()
Clamp(s, a) == IF a > 0 /\ a > s.capT THEN s.capT
               ELSE IF a < 0 /\ -a > s.capW - 1 THEN -(s.capW - 1) ELSE a

RECURSIVE IncWin(_, _)      \* increaseWindow(amount): move from probation/protected tails to the window front
IncWin(s, a) ==
  LET pbBack == Back(s.pb)
      useB == pbBack # Nil /\ s.pw[pbBack] <= a
      e == IF useB THEN pbBack ELSE Back(s.pt)
  IN IF e = Nil \/ s.pw[e] > a THEN <<s, a>>
     ELSE IncWin(PushFrontW(IF useB THEN RemB(s, e) ELSE RemT(s, e), e), a - s.pw[e])

RECURSIVE DecWin(_, _)      \* decreaseWindow(amount): move from the window tail to the probation front
DecWin(s, a) ==
  LET e == Back(s.win) IN
  IF e = Nil \/ s.pw[e] > a THEN <<s, a>>
  ELSE DecWin(PushFrontB(RemW(s, e), e), a - s.pw[e])

Resize(s0, amount) ==
  LET a == Clamp(s0, amount)
      s1 == Demote([s0 EXCEPT !.capW = @ + a, !.capT = @ - a, !.amt = a, !.ev = <<>>, !.adm = <<>>])
      r == IF a > 0 THEN IncWin(s1, a) ELSE IF a < 0 THEN DecWin(s1, -a) ELSE <<s1, 0>>
      remain == IF a > 0 THEN r[2] ELSE IF a < 0 THEN -r[2] ELSE a
  IN [r[1] EXCEPT !.amt = remain, !.capW = @ - remain, !.capT = @ + remain]

\* TinyLfu.Set(entry) for an entry whose policyWeight is w (sinkWrite NEW sets it before the call)
PSet(s0, e, w, ch) ==
  LET s1 == [s0 EXCEPT !.pw[e] = w, !.ev = <<>>, !.adm = <<>>]
      s2 == [s1 EXCEPT !.ws = @ + w]
      s3 == IF Region(s2, e) = "none" THEN PushFrontW(s2, e) ELSE s2
  IN Evict(Demote(s3), ch)

\* TinyLfu.Access(item)
PAccess(s0, e) ==
  LET s == [s0 EXCEPT !.ev = <<>>, !.adm = <<>>] IN
  CASE Region(s, e) = "W" -> [s EXCEPT !.win = MoveFront(s.win, e)]
    [] Region(s, e) = "B" -> PushFrontT(RemB(s, e), e)
    [] Region(s, e) = "T" -> [s EXCEPT !.pt = MoveFront(s.pt, e)]
    [] OTHER -> s

\* sinkWrite UPDATE on a tracked entry: policyWeight += d, then TinyLfu.UpdateCost(entry, d)
PUpdate(s0, e, d, ch) ==
  LET s1 == [s0 EXCEPT !.pw[e] = @ + d, !.ws = @ + d, !.ev = <<>>, !.adm = <<>>]
      rg == Region(s1, e)
      s2 == CASE rg = "W" -> [s1 EXCEPT !.lenW = @ + d] [] rg = "B" -> [s1 EXCEPT !.lenB = @ + d]
              [] rg = "T" -> [s1 EXCEPT !.lenT = @ + d] [] OTHER -> s1
      s3 == IF s2.pw[e] > Cap THEN PolRemove(s2, e, TRUE)
            ELSE CASE rg = "W" -> [s2 EXCEPT !.win = MoveFront(s2.win, e)]
                   [] rg = "B" -> PushFrontT(RemB(s2, e), e)
                   [] rg = "T" -> [s2 EXCEPT !.pt = MoveFront(s2.pt, e)]
                   [] OTHER -> s2
  IN IF Over(s3) THEN Evict(s3, ch) ELSE s3

PRemove(s0, e) == PolRemove([s0 EXCEPT !.ev = <<>>, !.adm = <<>>], e, FALSE)

-----------------------------------------------------------------------------
(* C07 invariants of a policy state *)
RECURSIVE SumPw(_, _)
SumPw(s, q) == IF q = <<>> THEN 0 ELSE s.pw[Head(q)] + SumPw(s, Tail(q))
NoDup(q) == \A i, j \in DOMAIN q : i # j => q[i] # q[j]

Structure(s) ==
  /\ NoDup(s.win \o s.pb \o s.pt)                                           \* exactly one region
  /\ s.lenW = SumPw(s, s.win) /\ s.lenB = SumPw(s, s.pb) /\ s.lenT = SumPw(s, s.pt)
  /\ s.cntW = Len(s.win) /\ s.cntB = Len(s.pb) /\ s.cntT = Len(s.pt)
  /\ s.ws = s.lenW + s.lenB + s.lenT
Bounds(s) ==
  /\ s.capW >= 1 /\ s.capT >= 0 /\ s.capW + s.capT = InitCapW + InitCapT    \* conserved, no wrap
  /\ s.ok                                                                   \* eviction terminated
WithinCap(s) == s.ws <= Cap /\ s.ws >= 0
=============================================================================
