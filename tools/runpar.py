#!/usr/bin/env python3
"""runpar.py <quick|thorough> <jobs> [ids...]: like runall.py, several checks at a time (each check is an independent
process with its own work directory)."""
import os, subprocess, sys, time
from concurrent.futures import ThreadPoolExecutor
V = os.path.dirname(os.path.dirname(os.path.abspath(__file__)))
tier = sys.argv[1]; jobs = int(sys.argv[2]); ids = sys.argv[3:] or ["C%02d" % i for i in range(1, 21)]
def one(i):
    t = time.time()
    p = subprocess.run(["./check", i, tier], cwd=V, stdout=subprocess.PIPE, stderr=subprocess.STDOUT, text=True)
    lines = [l[:260] for l in p.stdout.splitlines() if l.startswith(("VIOLATION", "  detail", "MACHINERY", "KNOWN", "note"))]
    print("%s %s rc=%d %.0fs %s" % (i, tier, p.returncode, time.time() - t, lines[:6]), flush=True)
    if p.returncode != 0:
        print(p.stdout[-1500:], flush=True)
    return p.returncode
with ThreadPoolExecutor(jobs) as ex:
    rcs = list(ex.map(one, ids))
sys.exit(1 if any(rcs) else 0)
