"""C04 — expired entries are reclaimed within about one tick of their deadline.

spec: TimerWheel.tla (+MC, Sim, Trace).  Decides by: exhaustive TLC on the scaled wheel
(design), TLC-generated behaviours replayed into the real TimerWheel built with the scaled
geometry, a boundary-value driver on the real geometry, all recorded and validated by TLC.
"""
import json, os, time
import vlib


def validate(work, trace, cfg, tag):
    res = work.path("result_%s.json" % tag)
    r = vlib.run_tlc(work, "TimerWheelTrace", cfg, workers=1, tag="trace_" + tag,
                     env={"VERIF_TRACE": trace, "VERIF_RESULT": res}, timeout=1200)
    if r.error or not os.path.exists(res):
        raise vlib.MachineryError("trace validation (%s) failed: %s" % (tag, r.error or r.out[-1500:]))
    out = json.load(open(res))
    if out["consumed"] != out["lines"]:
        raise vlib.MachineryError("trace %s not fully consumed: %s of %s" % (tag, out["consumed"], out["lines"]))
    return out, r


def realtick_stage(work, v, thorough):
    binp = vlib.go_build_test(work, "./internal/")
    out = work.sub("realtick")
    rc, o = vlib.run_test_bin(binp, "^TestVerif_C04RealTick$", timeout=300,
                              env={"VERIF_OUT": out, "VERIF_IDLE_MS": 20000 if thorough else 8500})
    if rc != 0:
        if vlib.code_panic(o):
            raise vlib.CodePanic(vlib.code_panic(o), o)
        raise vlib.MachineryError("real-time ticker harness failed rc=%s:\n%s" % (rc, (o or "")[-3000:]))
    tf = os.path.join(out, "realtick.ndjson")
    res = work.path("realtick_result.json")
    r = vlib.run_tlc(work, "RealTick", "RealTick.cfg", workers=1, tag="realtick", env={"VERIF_TRACE": tf, "VERIF_RESULT": res}, timeout=600)
    if r.error or not os.path.exists(res):
        raise vlib.MachineryError("real-time trace validation failed: %s" % (r.error or r.out[-1500:]))
    j = json.load(open(res))
    if j["consumed"] != j["lines"] or j["entries"] == 0:
        raise vlib.MachineryError("real-time trace not consumed (%s of %s lines, %s entries)" % (j["consumed"], j["lines"], j["entries"]))
    seen = set()
    for (tid, line, kind) in j["viol"]:
        if (tid, kind) in seen:
            continue
        seen.add((tid, kind))
        v.report("real time: %s in scenario %s at line %s" % (kind, tid, line), tf)
    return {"real_time_entries_timed": j["entries"],
            "real_time_rule": "EXPIRED notification no earlier than the deadline and at most 2^30 ns + 1 s (+0.9 s scheduling slack) after it, "
                              "after idle periods up to %s s and on a busy store; real clock, the code's own ticker" % (20 if thorough else 8.5)}


def run(tier, work):
    t0 = time.time()
    thorough = tier == "thorough"
    v = vlib.Verdict("C04", work)
    # 1. design: exhaustive model checking of the scaled wheel
    mc = vlib.run_tlc(work, "TimerWheelMC", "TimerWheelMC_fixed.cfg" if thorough else "TimerWheelMC_quick.cfg",
                      workers=12, timeout=3000)
    vlib.tlc_must_pass(mc, "TimerWheelMC")
    if mc.violation:
        raise vlib.MachineryError("specification TimerWheel (repaired design) violates %s — spec error" % mc.violation)
    states, trans = mc.distinct, mc.generated
    if thorough:
        mc2 = vlib.run_tlc(work, "TimerWheelMC", "TimerWheelMC_two.cfg", workers=12, timeout=3000, tag="two")
        vlib.tlc_must_pass(mc2, "TimerWheelMC two entries")
        if mc2.violation:
            raise vlib.MachineryError("specification TimerWheel (two entries) violates %s" % mc2.violation)
        states += mc2.distinct
        trans += mc2.generated
    # 2. behaviours from TLC
    simdir = work.sub("sim")
    nsim = 1500 if thorough else 250
    sim = vlib.run_tlc(work, "TimerWheelSim", "TimerWheelSim.cfg", workers=1, tag="sim",
                       mode_args=["-simulate", "num=%d" % nsim, "-depth", "41", "-seed", str(vlib.seed())],
                       env={"VERIF_SIMDIR": simdir}, timeout=900)
    vlib.tlc_must_pass(sim, "TimerWheelSim")
    nbeh = len([f for f in os.listdir(simdir) if f.endswith(".ndjson")])
    if nbeh == 0:
        raise vlib.MachineryError("no behaviours exported by TLC")
    # 3. real code
    binp = vlib.go_build_test(work, "./internal/")
    out = work.sub("traces")
    rc, o = vlib.run_test_bin(binp, "^TestVerif_C04Wheel", timeout=900,
                              env={"VERIF_OUT": out, "VERIF_IN": simdir, "VERIF_N": 400 if thorough else 60,
                                   "VERIF_SEED": vlib.seed()})
    if rc != 0:
        if vlib.code_panic(o):
            raise vlib.CodePanic(vlib.code_panic(o), o)
        raise vlib.MachineryError("wheel harness failed rc=%s:\n%s" % (rc, (o or "")[-3000:]))
    # 4. validate
    total_div = 0
    traces = 0
    samples = []
    advances = 0
    for tag, cfg in (("scaled", "TimerWheelTrace_scaled.cfg"), ("real", "TimerWheelTrace_real.cfg")):
        tf = os.path.join(out, "wheel_%s.ndjson" % tag)
        res, r = validate(work, tf, cfg, tag)
        total_div += res["div"]
        advances += res["advances"]
        recs = vlib.read_ndjson(tf)
        traces += sum(1 for x in recs if x["op"] == "reset")
        samples.append({"trace": tag, "first_events": recs[:6]})
        seen = set()
        for (tid, line, kind, e) in res["viol"]:
            key = (tag, tid, kind, e)
            if key in seen:
                continue
            seen.add(key)
            # cut the offending trace out as the replay file
            seg = []
            cur = None
            for x in recs:
                if x["op"] == "reset":
                    cur = x["id"]
                if cur == tid:
                    seg.append(x)
            rp = work.path("viol_%s_%s_%s.ndjson" % (tag, tid, kind))
            vlib.write_ndjson(rp, seg)
            v.report("%s wheel: %s entry %s in trace %s at line %s" % (tag, kind, e, tid, line), rp)
    # 5. through the store: TTL entries under the real ticker path (schedule / re-schedule on TTL update /
    #    expiry re-check), replayed TLC schedules and free-running histories, validated by StoreTrace
    import storelib
    # the expiry decision and the removal of the map slot as one shard critical section (Store.tla NoBadC04); the design
    # before the repair D20 (comparison outside the shard lock) must violate it
    smc = storelib.tlc_mc(work, "StoreMC_exp_small.cfg", tag="mc_exp_small")
    states += smc.distinct
    trans += smc.generated
    d20 = vlib.run_tlc(work, "StoreMC", "StoreMC_d20.cfg", workers=8, timeout=1200, tag="mc_d20")
    if d20.violation != "NoBadC04":
        raise vlib.MachineryError("Store.tla with FixD20 = FALSE does not violate NoBadC04 (got %r)" % (d20.violation,))
    store_traces = 0
    for (kind, env, fname, test) in (("replay", None, "store_replay.ndjson", "TestVerif_StoreReplay"),
                                     ("free", {"VERIF_N": 24 if thorough else 6}, "store_free.ndjson", "TestVerif_StoreFree"),
                                     ("time", {"VERIF_N": 200 if thorough else 40}, "store_time.ndjson", "TestVerif_StoreTime")):
        e = dict(env or {})
        if kind == "replay":
            sd, _n = storelib.tlc_sim(work, "StoreSim_acct.cfg", 1200 if thorough else 150, 61, "c04acct")
            e["VERIF_IN"] = sd
        o2 = storelib.run_driver(work, test, "c04_" + kind, env=e, timeout=1800)
        tf2 = os.path.join(o2, fname)
        res2 = storelib.validate(work, tf2, "c04_" + kind)
        store_traces += res2["traces"]
        for x in res2["viol"]:
            # a resident entry with a deadline that is not on the wheel will never be reclaimed: also a C04 matter
            if x[0] == "C02" and x[3] == "resident_entry_with_deadline_not_on_wheel":
                x[0] = "C04"
        storelib.report(v, work, "C04", tf2, res2)
    traces += store_traces
    # 6. entries restored by LoadCache: after each clean load the clock passes the earliest restored deadline and the
    #    wheel is advanced twice as the ticker does (PersistTrace "reclaim" lines)
    import persistcheck
    pres, _ = persistcheck.trace_part(work, v, "C04", 80 if thorough else 12, 0, {})
    traces += pres["traces"]
    cov = {"states": states, "transitions": trans, "traces_validated_against_impl": traces, "store_level_traces": store_traces,
           "behaviours_replayed": nbeh, "advance_steps_validated": advances,
           "model_divergences": total_div, "samples": samples, "exhaustive": True,
           "constants": "scaled wheel 4/4/2/2/1 slots, shifts 1/3/5/6/7; see spec/TimerWheelMC_*.cfg"}
    # the wheel slots are intrusive lists over the entries' second link set (List.tla at pointer grain)
    import listcheck
    cov.update(listcheck.stage(work, v, "C04", thorough))
    # 8. real time: the code's own ticker on untouched stores (idle periods before the first deadline, busy store)
    cov.update(realtick_stage(work, v, thorough))
    rcode = v.finish()
    if total_div:
        print("note: %d step(s) where the real wheel's placement/removal differs from TimerWheel.tla "
              "(model divergence; not a property violation by itself)" % total_div)
    vlib.write_evidence("C04", tier, "model_checking", cov,
                        ["TLC explores the scaled geometry exhaustively; the real geometry is covered by the "
                         "boundary-value driver and trace validation only",
                         "advance times are supplied explicitly (wheel level); the ticker period is covered by the store-level checks",
                         "restored entries: saved caches with TTLs on several wheel levels are loaded after 0 s .. 3 h of down time, then two ticks 1.1 s and 2.2 s after the earliest restored deadline must have reclaimed everything due 2.1 s before the second"],
                        time.time() - t0, len(v.violations))
    return rcode
