"""C09 - frequently read entries survive one-off insertions (admission quality)."""
import json, os, sys, time
import vlib, storelib


def run(tier, work):
    t0 = time.time()
    thorough = tier == "thorough"
    if "--replay" in sys.argv:
        path = os.path.abspath(sys.argv[sys.argv.index("--replay") + 1])
        res = storelib.validate(work, path, "replay", module="C09Trace", cfg="C09Trace.cfg")
        for x in res["viol"]:
            print("VIOLATION property=C09 replay=%s\n  detail: %s at line %s" % (path, x[3], x[2]))
        return 1 if res["viol"] else 0
    v = vlib.Verdict("C09", work)
    states = trans = 0
    mcs = []
    for c in ([4, 6] if thorough else [4]):
        r = storelib.tlc_mc(work, "TinyLfuHot_cap%d.cfg" % c, module="TinyLfuHot", tag="hot%d" % c, timeout=2400)
        states += r.distinct
        trans += r.generated
        mcs.append({"cfg": "TinyLfuHot_cap%d.cfg" % c, "states": r.distinct, "transitions": r.generated, "wall_s": round(r.wall, 1)})
    out = storelib.run_driver(work, "TestVerif_C09Quality", "c09", env={"VERIF_N": 1 if thorough else 0}, timeout=1800)
    tf = os.path.join(out, "c09.ndjson")
    res = storelib.validate(work, tf, "c09", module="C09Trace", cfg="C09Trace.cfg", timeout=3000)
    storelib.report(v, work, "C09", tf, res)
    summ = res["summary"]
    zipf = [s for s in summ if s[0].startswith("zipf")]
    cov = {"states": states, "transitions": trans, "traces_validated_against_impl": res["traces"],
           "evaluations": res["traces"], "distinct_nontrivial": res["traces"],
           "rule": "one evaluation = one generated request trace (hot set of half the cache plus one-off insertions, or Zipf s=1.01) served by the real cache (plain/loading, uniform/mixed costs, fresh or after a concurrent phase); TLC executes a strict LRU of the same size on the same requests and compares",
           "requests_validated": res["lines"], "model_checking_runs": mcs,
           "zipf_hits_cache_vs_lru": [{"run": s[0], "requests": s[1], "cache_hits": s[2], "lru_hits": s[3]} for s in zipf[:12]],
           "samples": vlib.read_ndjson_head(tf, 8), "exhaustive": True}
    rc = v.finish()
    vlib.write_evidence("C09", tier, "model_checking", cov,
                        ["retention is model-checked on TinyLfuHot.tla (exact frequencies, every hot key read between two agings, capacities 4 and 6); the Zipf-versus-LRU clause is a measurement on generated traces with the LRU reference executed by TLC (tolerance 1% of the requests)",
                         "cache sizes up to 200 (1000 thorough); sizes of 10^4-10^5 and the hybrid cache are not evaluated",
                         "reads reach the sketch only through the lossy buffer; the driver calls Wait every 64 requests"],
                        time.time() - t0, len(v.violations))
    return rc
