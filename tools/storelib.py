"""Shared machinery of the Store-family checks (C01 C02 C03 C05 C06 C10 C16 C20):
TLC exhaustive runs of Store.tla, behaviour export (StoreSim), execution on the real Store
(replay / free-running / sequential drivers), trace validation by TLC (StoreTrace)."""
import json, os, time, shutil
import vlib


def tlc_mc(work, cfg, expect_ok=True, timeout=3000, workers=12, tag=None, deadlock=False, module="StoreMC"):
    r = vlib.run_tlc(work, module, cfg, workers=workers, timeout=timeout, tag=tag, deadlock=deadlock)
    vlib.tlc_must_pass(r, "%s %s" % (module, cfg))
    if expect_ok and r.violation:
        raise vlib.MachineryError("specification %s/%s violates %s - the specification of the (repaired) design is wrong"
                                  % (module, cfg, r.violation))
    return r


def tlc_sim(work, cfg, num, depth, tag, module="StoreSim"):
    simdir = work.sub("sim_" + tag)
    r = vlib.run_tlc(work, module, cfg, workers=1, tag="sim_" + tag,
                     mode_args=["-simulate", "num=%d" % num, "-depth", str(depth), "-seed", str(vlib.seed())],
                     env={"VERIF_SIMDIR": simdir}, timeout=900)
    vlib.tlc_must_pass(r, module + " " + cfg)
    n = len([f for f in os.listdir(simdir) if f.endswith(".ndjson")])
    if n == 0:
        raise vlib.MachineryError("no behaviours exported by TLC (%s)" % cfg)
    return simdir, n


_bin = {}


def harness_bin(work, pkg="./internal/"):
    if pkg not in _bin:
        _bin[pkg] = vlib.go_build_test(work, pkg)
    return _bin[pkg]


def run_driver(work, test, outname, env=None, timeout=900, pkg="./internal/"):
    out = work.sub("out_" + outname)
    e = {"VERIF_OUT": out, "VERIF_SEED": vlib.seed()}
    if env:
        e.update(env)
    rc, o = vlib.run_test_bin(harness_bin(work, pkg), "^%s$" % test, env=e, timeout=timeout)
    if rc != 0:
        cp = vlib.code_panic(o)
        if cp:
            raise vlib.CodePanic("%s (driver %s)" % (cp, test), o)
        raise vlib.MachineryError("driver %s failed rc=%s:\n%s" % (test, rc, (o or "")[-3000:]))
    return out


def validate(work, trace, tag, module="StoreTrace", cfg="StoreTrace.cfg", timeout=2400, extra_files=None):
    res = work.path("result_%s.json" % tag)
    r = vlib.run_tlc(work, module, cfg, workers=1, tag="trace_" + tag,
                     env={"VERIF_TRACE": trace, "VERIF_RESULT": res}, timeout=timeout,
                     java_opts=["-Xss256m"], extra_files=extra_files)
    if r.error or not os.path.exists(res):
        raise vlib.MachineryError("trace validation (%s) failed: %s" % (tag, r.error or r.out[-1500:]))
    out = json.load(open(res))
    if out["consumed"] != out["lines"]:
        raise vlib.MachineryError("trace %s not fully consumed: %s of %s" % (tag, out["consumed"], out["lines"]))
    return out


def cut_segment(trace, tid, dst):
    """Write the trace segment of one reset id to dst (replay file of a violation)."""
    cur = None
    with open(trace) as fh, open(dst, "w") as out:
        for line in fh:
            if '"ev":"reset"' in line or '"ev":"areset"' in line:
                try:
                    cur = json.loads(line).get("id")
                except ValueError:
                    cur = None
            if cur == tid:
                out.write(line)
            elif '"id":"%s"' % tid in line:
                out.write(line)      # traces without reset lines (one self-contained line per case)


def report(v, work, pid, trace, res, classify=None, others=None):
    """Report the violations of property pid found in one validated trace.
    classify(kind, tid, line) -> known-finding id or None."""
    seen = set()
    n = 0
    for (prop, tid, line, kind) in res["viol"]:
        if prop != pid:
            if others is not None:
                others[prop] = others.get(prop, 0) + 1
            continue
        key = (tid, kind)
        if key in seen:
            continue
        seen.add(key)
        sig = classify(kind, tid, line) if classify else None
        rp = work.path("viol_%s_%s_%s.ndjson" % (pid, os.path.basename(str(tid)).replace(".", "_"), kind[:40]))
        cut_segment(trace, tid, rp)
        v.report("%s: %s in trace %s at line %s" % (pid, kind, tid, line), rp, sig=sig)
        n += 1
    return n


def replay_file(pid, path, work):
    """./check Cxx --replay path : validate one recorded trace segment again."""
    mode = ""
    try:
        with open(path) as fh:
            first = json.loads(fh.readline())
            mode = "persist" if first.get("ev") == "saved" else "counter" if first.get("ev") in ("counter", "getburst") else first.get("mode", "")
    except Exception:
        first = {}
    if mode == "persist":
        res = validate(work, os.path.abspath(path), "replay", module="PersistTrace", cfg="PersistTrace.cfg")
    elif mode == "counter":
        res = validate(work, os.path.abspath(path), "replay", module="CounterTrace", cfg="CounterTrace.cfg")
    elif mode == "api":
        res = validate(work, os.path.abspath(path), "replay", module="ApiTrace", cfg="ApiTrace.cfg")
    elif mode == "bloom":
        res = validate(work, os.path.abspath(path), "replay", module="BloomTrace", cfg="BloomTrace.cfg")
    elif mode == "rbmutex":
        import rbcheck
        res = validate(work, os.path.abspath(path), "replay", module="RBMutexTrace", cfg="RBMutexTrace_gen.cfg",
                       extra_files={"RBMutexTrace_gen.cfg": rbcheck.CFG % first["ns"]})
        res["viol"] = [[pid, x[1], x[2], x[3]] for x in res["viol"]]
    elif mode == "hybrid":
        res = validate(work, os.path.abspath(path), "replay", module="HybridTrace", cfg="HybridTrace.cfg")
    else:
        res = validate(work, os.path.abspath(path), "replay")
    bad = [x for x in res["viol"] if x[0] == pid]
    for x in bad:
        print("VIOLATION property=%s replay=%s" % (pid, path))
        print("  detail: %s at line %s" % (x[3], x[2]))
    return 1 if bad else 0
