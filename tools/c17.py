"""C17 — frequency sketch never under-counts and ages predictably.

spec: Sketch.tla (+MC, Sim, Trace).  The index function needs 64-bit multiplication, so the
binding runs code -> spec: the harness logs the positions the code's own indexOf yields.
"""
import json, os, time
import vlib


def run(tier, work):
    t0 = time.time()
    thorough = tier == "thorough"
    v = vlib.Verdict("C17", work)
    mc = vlib.run_tlc(work, "SketchMC", "SketchMC_thorough.cfg" if thorough else "SketchMC.cfg", workers=12, timeout=3000)
    vlib.tlc_must_pass(mc, "SketchMC")
    if mc.violation:
        raise vlib.MachineryError("specification Sketch violates %s — spec error" % mc.violation)
    simdir = work.sub("sim")
    sim = vlib.run_tlc(work, "SketchSim", "SketchSim.cfg", workers=1, tag="sim",
                       mode_args=["-simulate", "num=%d" % (600 if thorough else 120), "-depth", "61", "-seed", str(vlib.seed())],
                       env={"VERIF_SIMDIR": simdir}, timeout=900)
    vlib.tlc_must_pass(sim, "SketchSim")
    nbeh = len([f for f in os.listdir(simdir) if f.endswith(".ndjson")])
    if nbeh == 0:
        raise vlib.MachineryError("no behaviours exported by TLC")
    binp = vlib.go_build_test(work, "./internal/")
    out = work.sub("traces")
    rc, o = vlib.run_test_bin(binp, "^TestVerif_C17Sketch", timeout=1200,
                              env={"VERIF_OUT": out, "VERIF_IN": simdir, "VERIF_N": 300 if thorough else 60,
                                   "VERIF_MAXLOG": 24 if thorough else 20, "VERIF_SEED": vlib.seed()})
    if rc != 0:
        if vlib.code_panic(o):
            raise vlib.CodePanic(vlib.code_panic(o), o)
        raise vlib.MachineryError("sketch harness failed rc=%s:\n%s" % (rc, (o or "")[-3000:]))
    traces = 0; div = 0; resets = 0; lines = 0; samples = []
    for tag in ("replay", "driver"):
        tf = os.path.join(out, "sketch_%s.ndjson" % tag)
        res = work.path("result_%s.json" % tag)
        r = vlib.run_tlc(work, "SketchTrace", "SketchTrace.cfg", workers=1, tag="trace_" + tag,
                         env={"VERIF_TRACE": tf, "VERIF_RESULT": res}, timeout=2400)
        if r.error or not os.path.exists(res):
            raise vlib.MachineryError("trace validation (%s) failed: %s" % (tag, r.error or r.out[-1500:]))
        out_j = json.load(open(res))
        if out_j["consumed"] != out_j["lines"]:
            raise vlib.MachineryError("trace %s not fully consumed" % tag)
        recs = vlib.read_ndjson(tf)
        traces += sum(1 for x in recs if x["op"] == "new")
        lines += len(recs)
        div += out_j["div"]; resets += out_j["resets"]
        samples.append({"trace": tag, "events": recs[:5]})
        seen = set()
        for (tid, line, kind) in out_j["viol"]:
            if (tid, kind) in seen:
                continue
            seen.add((tid, kind))
            seg = []; cur = None
            for x in recs:
                if x["op"] == "new":
                    cur = x["id"]
                if cur == tid:
                    seg.append(x)
            rp = work.path("viol_%s_%s_%s.ndjson" % (tag, tid, kind))
            vlib.write_ndjson(rp, seg)
            v.report("%s: %s in trace %s at line %s" % (tag, kind, tid, line), rp)
    if resets == 0:
        raise vlib.MachineryError("no reset exercised in any trace (vacuous)")
    rcode = v.finish()
    if div:
        print("note: %d step(s) where the real sketch differs from Sketch.tla without breaking the property" % div)
    vlib.write_evidence("C17", tier, "model_checking",
                        {"states": mc.distinct, "transitions": mc.generated, "traces_validated_against_impl": traces,
                         "trace_events": lines, "resets_observed": resets, "behaviours_replayed": nbeh,
                         "model_divergences": div, "samples": samples, "exhaustive": True,
                         "constants": "16-word table, 3 overlapping keys, scaled sample size; see spec/SketchMC*.cfg"},
                        ["positions are the ones the code's own indexOf returns for the hash; a change that makes Add and "
                         "indexOf disagree is seen through the logged counter values and estimates",
                         "table sizes up to 2^%d words in this tier" % (24 if thorough else 20)],
                        time.time() - t0, len(v.violations))
    return rcode
