"""C20 - Wait is a write barrier and always returns."""
import storecheck

PLAN = {
    "api": True,   # public-API programs incl. one write that displaces hundreds of entries, then Wait
    "mc": [("StoreMC_wait.cfg", False, True)],
    "sims": [("StoreSim_wait.cfg", 150, 1500, 61), ("StoreSim_wait2.cfg", 300, 2500, 61), ("StoreSim_acct.cfg", 60, 400, 61)],
    "drivers": [("TestVerif_StoreFree", 4, 30, "store_free.ndjson", None),
                # loaders keep shard locks for 20-400 us while other clients write, evict and call Wait
                ("TestVerif_StoreLoad", 40, 300, "store_load.ndjson", None)],
    "assumptions": [
        "at every wake-up of the waiters (hook before the wake-up) the maintenance goroutine has no eviction begun and not concluded (slot removed or entry handed to the secondary workers) and owes no notification",
        "a call that does not return within 3 s of the end of its schedule is a hang only if a second execution of the same schedule hangs again",
        "barrier: every write event whose call returned before Wait was called (on any goroutine) has left sinkWrite, with its evictions and notifications, when Wait returns; events are matched as bags of (entry, code, delta); not compared with the entry pool on",
    ],
}


def run(tier, work):
    return storecheck.run_plan("C20", tier, work, PLAN)
