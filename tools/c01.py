"""C01 - reads return only the latest value written for that key (linearizable map)."""
import storecheck, rbcheck


def extra(work, v, thorough):
    # the shard lock the atomic shard sections of Store.tla rest on (model checking of RBMutex.tla is part of C19)
    return rbcheck.run(work, v, "C01", thorough, with_model=False)

PLAN = {
    "api": True,
    "lin": True,
    "mc": [("StoreMC_acct.cfg", False), ("StoreMC_exp_small.cfg", True)],
    "sims": [("StoreSim_acct.cfg", 200, 1500, 61)],
    "drivers": [("TestVerif_StoreFree", 10, 60, "store_free.ndjson", None), ("TestVerif_StoreTime", 30, 300, "store_time.ndjson", None),
                ("TestVerif_StoreLoad", 10, 100, "store_load.ndjson", None)],
    "extra": extra,
    "assumptions": [
        "the atomicity of a shard section is the contract of internal/rbmutex.go: the real RBMutex is stepped through its atomic operations and compared with RBMutex.tla (model-checked under C19); a writer inside together with a reader or another writer is reported here too",
        "linearization events are recorded under the shard lock by the verif hooks; the value each call returns is compared with the value read under the lock, and the map contents with the history at every quiescent snapshot",
        "Store.tla models each shard critical section as one atomic action; removal of a map slot by eviction/expiry is by identity",
        "with the entry pool on, entry identities are re-assigned at every insertion",
    ],
}


def run(tier, work):
    return storecheck.run_plan("C01", tier, work, PLAN)
