"""C01 - reads return only the latest value written for that key (linearizable map)."""
import storecheck

PLAN = {
    "mc": [("StoreMC_acct.cfg", False), ("StoreMC_exp_small.cfg", True)],
    "sims": [("StoreSim_acct.cfg", 200, 1500, 61)],
    "drivers": [("TestVerif_StoreFree", 10, 60, "store_free.ndjson", None)],
    "assumptions": [
        "linearization events are recorded under the shard lock by the verif hooks; the value each call returns is compared with the value read under the lock, and the map contents with the history at every quiescent snapshot",
        "Store.tla models each shard critical section as one atomic action; removal of a map slot by eviction/expiry is by identity",
        "with the entry pool on, entry identities are re-assigned at every insertion",
    ],
}


def run(tier, work):
    return storecheck.run_plan("C01", tier, work, PLAN)
