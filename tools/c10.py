"""C10 - every call terminates, also when racing Close; Close is final and leak-free."""
import storecheck

KINDS = dict(storecheck.KF_KINDS)


def classify(kind, tid, line):
    return KINDS.get(kind)


PLAN = {
    "mc": [("StoreMC_close.cfg", False, True), ("StoreMC_close2.cfg", True, True)],
    "sims": [("StoreSim_close.cfg", 200, 1500, 61)],
    "drivers": [("TestVerif_StoreClose", 40, 300, "store_close.ndjson", None)],
    "classify": classify,
    "assumptions": [
        "termination: TLC deadlock check on the close configuration of Store.tla (a state in which some call can never return is a deadlock); on the real store a call that has not returned after 3-4 s is a hang, and a hang in a replayed schedule counts only if a second execution hangs again",
        "leak check: number of goroutines with a frame in internal.(*Store) after Close compared with the number before the store was created",
        "plain and loading caches; the hybrid cache is covered by C14/C15's harness",
    ],
}


def run(tier, work):
    return storecheck.run_plan("C10", tier, work, PLAN)
