"""C10 - every call terminates, also when racing Close; Close is final and leak-free."""
import os
import storecheck, storelib, vlib

KINDS = dict(storecheck.KF_KINDS)


def classify(kind, tid, line):
    return KINDS.get(kind)


def extra(work, v, thorough):
    """Hybrid part: Hybrid.tla with Close (ClosedQuiet), and the hybrid driver's post-close phase."""
    mc = storelib.tlc_mc(work, "HybridMC.cfg", module="Hybrid", tag="hmc", timeout=2400)
    # the invariant must not be vacuous: the design before the repair D19 violates it
    d19 = vlib.run_tlc(work, "Hybrid", "HybridMC_d19.cfg", workers=4, timeout=600, tag="hmc_d19")
    if d19.violation != "ClosedQuiet":
        raise vlib.MachineryError("Hybrid.tla: ClosedQuiet is not violated by the design that serves after Close (got %r)" % (d19.violation,))
    out = storelib.run_driver(work, "TestVerif_Hybrid", "hybrid", env={"VERIF_N": 600 if thorough else 80}, timeout=2400)
    tf = os.path.join(out, "hybrid.ndjson")
    res = storelib.validate(work, tf, "hybrid", module="HybridTrace", cfg="HybridTrace.cfg", timeout=3000)
    storelib.report(v, work, "C10", tf, res, classify)
    return {"hybrid_states": mc.distinct, "hybrid_transitions": mc.generated, "hybrid_histories_with_close_phase": res["traces"],
            "hybrid_events_validated": res["lines"], "_states": mc.distinct, "_trans": mc.generated, "_traces": res["traces"]}


PLAN = {
    "api": True,
    "mc": [("StoreMC_close.cfg", False, True), ("StoreMC_close2.cfg", True, True)],
    "sims": [("StoreSim_close.cfg", 200, 1500, 61)],
    "drivers": [("TestVerif_StoreClose", 40, 300, "store_close.ndjson", None)],
    "classify": classify,
    "extra": extra,
    "assumptions": [
        "termination: TLC deadlock check on the close configuration of Store.tla (a state in which some call can never return is a deadlock); on the real store a call that has not returned after 3-4 s is a hang, and a hang in a replayed schedule counts only if a second execution hangs again",
        "leak check: number of goroutines with a frame in internal.(*Store) after Close compared with the number before the store was created",
        "plain and loading caches (gated replay, free-running close driver); hybrid caches (simple and loading): every history of the hybrid driver ends with Close followed by Set/Get on every key and a goroutine census",
    ],
}


def run(tier, work):
    return storecheck.run_plan("C10", tier, work, PLAN)
