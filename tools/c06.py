"""C06 - a successful Set is visible and is never lost without a reason."""
import os
import storecheck, storelib, vlib


def extra(work, v, thorough):
    """The doorkeeper's Bloom filter: Bloom.tla model-checked, the real filter replayed call by call (BloomTrace)."""
    mc = storelib.tlc_mc(work, "BloomMC.cfg", module="Bloom", tag="bloom_mc")
    out = storelib.run_driver(work, "TestVerif_Bloom", "bloom", env={"VERIF_N": 400 if thorough else 40, "VERIF_SEED": vlib.seed()})
    tf = os.path.join(out, "bloom.ndjson")
    res = storelib.validate(work, tf, "bloom", module="BloomTrace", cfg="BloomTrace.cfg", timeout=1800)
    storelib.report(v, work, "C06", tf, res)
    if res["div"]:
        print("note: %d Bloom filter histories leave Bloom.tla (model divergence, not a verdict)" % res["div"])
    # entry pool: the life of one entry object between the building and the application of its events
    # (PoolWheel.tla). The repaired design holds; the design before D22 must violate both invariants.
    pw = storelib.tlc_mc(work, "PoolWheelMC.cfg", module="PoolWheel", tag="poolwheel")
    for cfg, inv in (("PoolWheelMC_d22.cfg", "FreeNotLinked"), ("PoolWheelMC_d22b.cfg", "NoTtlNeverExpired")):
        bad = vlib.run_tlc(work, "PoolWheel", cfg, workers=2, timeout=300, tag=cfg[:-4])
        if bad.violation != inv:
            raise vlib.MachineryError("PoolWheel.tla %s: expected a violation of %s (D22), got %r" % (cfg, inv, bad.violation))
    return {"poolwheel_states": pw.distinct, "poolwheel_design_before_D22_violates": ["FreeNotLinked", "NoTtlNeverExpired"],
            "bloom_states": mc.distinct, "bloom_transitions": mc.generated, "bloom_histories": res["traces"], "bloom_calls_compared": res["ops"],
            "bloom_histories_leaving_the_spec": res["div"], "_states": mc.distinct, "_trans": mc.generated, "_traces": res["traces"]}

PLAN = {
    "api": True,
    "lin": True,
    "mc": [("StoreMC_acct.cfg", False), ("StoreMC_d16.cfg", False)],
    "sims": [("StoreSim_seq.cfg", 250, 2500, 91), ("StoreSim_seqdoor.cfg", 100, 800, 91), ("StoreSim_delta.cfg", 800, 6000, 46)],
    "drivers": [("TestVerif_StoreFree", 4, 30, "store_free.ndjson", None), ("TestVerif_StoreLoad", 20, 200, "store_load.ndjson", None)],
    "extra": extra,
    "assumptions": [
        "sequential programs (one client, up to 7 operations over 2 keys, costs 1..MaxSize+1, TTL none/1/2 ticks, doorkeeper on and off) are random walks of Store.tla with the maintenance and ticker steps interleaved at will, executed under the virtual clock",
        "eviction without reason: an EVICTED removal while the sum over live entries of the largest cost they had since the last drain is within MaxSize (sound upper bound of what the policy may count)",
        "doorkeeper: a rejection is legal only for a key the shard's filter has not been shown since it was last cleared (the hook event carries shard and first-sighting counter); the filter itself is Bloom.tla (no false negatives, second sighting admitted), model-checked for 4-8 bits and replayed call by call on the real bf.Bloomfilter; loader admissions are also checked in C13",
    ],
}


def run(tier, work):
    return storecheck.run_plan("C06", tier, work, PLAN)
