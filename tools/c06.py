"""C06 - a successful Set is visible and is never lost without a reason."""
import storecheck

PLAN = {
    "mc": [("StoreMC_acct.cfg", False), ("StoreMC_d16.cfg", False)],
    "sims": [("StoreSim_seq.cfg", 250, 2500, 91), ("StoreSim_seqdoor.cfg", 100, 800, 91), ("StoreSim_delta.cfg", 800, 6000, 46)],
    "drivers": [("TestVerif_StoreFree", 4, 30, "store_free.ndjson", None), ("TestVerif_StoreLoad", 20, 200, "store_load.ndjson", None)],
    "assumptions": [
        "sequential programs (one client, up to 7 operations over 2 keys, costs 1..MaxSize+1, TTL none/1/2 ticks, doorkeeper on and off) are random walks of Store.tla with the maintenance and ticker steps interleaved at will, executed under the virtual clock",
        "eviction without reason: an EVICTED removal while the sum over live entries of the largest cost they had since the last drain is within MaxSize (sound upper bound of what the policy may count)",
        "doorkeeper rejections are taken from the hook event (the Bloom filter is not modelled); loader admissions are checked in C13",
    ],
}


def run(tier, work):
    return storecheck.run_plan("C06", tier, work, PLAN)
