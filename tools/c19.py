"""C19 - no data races in the default configuration."""
import json, os, re, sys, time
import vlib, storelib, rbcheck


def run(tier, work):
    t0 = time.time()
    thorough = tier == "thorough"
    if "--replay" in sys.argv:
        path = os.path.abspath(sys.argv[sys.argv.index("--replay") + 1])
        if path.endswith(".txt"):
            print("VIOLATION property=C19 replay=%s\n  detail: race detector report (see file)" % path)
            return 1
        if vlib.read_ndjson_head(path, 1)[0].get("mode") == "rbmutex":
            ns = vlib.read_ndjson_head(path, 1)[0]["ns"]
            res = storelib.validate(work, path, "replay", module="RBMutexTrace", cfg="RBMutexTrace_gen.cfg",
                                    extra_files={"RBMutexTrace_gen.cfg": rbcheck.CFG % ns})
        else:
            res = storelib.validate(work, path, "replay", module="LockTable", cfg="LockTable.cfg")
        for x in res["viol"]:
            print("VIOLATION property=C19 replay=%s\n  detail: %s at line %s" % (path, x[3], x[2]))
        return 1 if res["viol"] else 0
    v = vlib.Verdict("C19", work)
    # (a) the shard lock itself: RBMutex.tla model-checked; the real lock stepped through its atomic operations
    rb = rbcheck.run(work, v, "C19", thorough)
    # (b) lock probes validated against the lock-domain table
    out = storelib.run_driver(work, "TestVerif_C19Locks", "locks", env={"VERIF_N": 30 if thorough else 6})
    tf = os.path.join(out, "locks.ndjson")
    res = storelib.validate(work, tf, "locks", module="LockTable", cfg="LockTable.cfg")
    storelib.report(v, work, "C19", tf, res)
    # (c) supplementary oracle: the race detector over a mixed workload, hooks inert
    binp = vlib.go_build_test(work, "./internal/", race=True)
    rout = work.sub("out_race")
    rc, o = vlib.run_test_bin(binp, "^TestVerif_C19Race$", env={"VERIF_OUT": rout, "VERIF_N": 30 if thorough else 6, "GORACE": "halt_on_error=0"},
                              timeout=1500)
    races = len(re.findall(r"WARNING: DATA RACE", o or ""))
    if rc is None:
        raise vlib.MachineryError("race workload timed out")
    if races:
        rp = work.path("race_report.txt")
        with open(rp, "w") as fh:
            fh.write(o[:200000])
        first = re.search(r"WARNING: DATA RACE\n(.*?\n.*?\n.*?\n)", o, re.S)
        v.report("C19: the race detector reported %d data race(s) in the default configuration: %s" % (races, (first.group(1) if first else "").replace("\n", " | ")[:300]), rp)
    elif rc != 0:
        raise vlib.MachineryError("race workload failed rc=%s:\n%s" % (rc, (o or "")[-2000:]))
    cov = {"evaluations": res["probes"], "distinct_nontrivial": res["traces"] + (30 if thorough else 6),
           "rule": "lock probes: at every linearization hook the lock required by LockTable.tla is probed (TryLock / reader slots) while 4 clients, maintenance and ticker run; race runs: 8 goroutines over Get/Set/SetWithTTL/Delete/Range/Len/EstimatedSize/Stats/Wait/SaveCache/loader Get/hybrid ops with a removal listener, Close racing in every second round, under the Go race detector with hooks inert",
           "lock_probes_validated": res["probes"], "traces_validated_against_impl": res["traces"], "race_detector_reports": races,
           "samples": vlib.read_ndjson_head(tf, 6), "exhaustive": False}
    cov["states"] = rb.pop("_states", 0)
    cov["transitions"] = rb.pop("_trans", 0)
    cov["traces_validated_against_impl"] += rb.pop("_traces", 0)
    cov.update(rb)
    rc2 = v.finish()
    vlib.write_evidence("C19", tier, "model_checking", cov,
                        ["the shard lock: RBMutex.tla at the grain of its atomic operations, exhaustive for 2 readers, 1 writer (2 thorough), 2 slots, with RLock/TryRLock/Lock/TryLock; the real RBMutex (1, 2, 4 slots; up to 3 readers and 2 writers) is released one hook at a time by a seeded scheduler and every step is compared with the specification; writer preference of sync.RWMutex is not modelled",
                         "a specification observes actions, not loads and stores: the lock-domain table is bound at hook points by lock probes (lockset style); accesses away from hook points are seen only by the race detector run, which is a different technique (dynamic happens-before analysis) and is reported as a supplementary oracle",
                         "the race detector only reports races on executions that occur during the run"],
                        time.time() - t0, len(v.violations))
    return rc2
