"""C12 - a damaged or truncated stream is never loaded as wrong data."""
import persistcheck


def run(tier, work):
    return persistcheck.run("C12", tier, work, [
        "block-level faults (truncate at every block boundary, drop, duplicate, swap, retype header, corrupt checksum, wrong version) are applied to the decoded block list of real streams and compared with Load of Persist.tla",
        "byte-level damage (truncation offsets, single-bit and single-byte changes at seeded positions) is enumerated by the Go driver and judged by the FaultSafe predicate of Persist.tla - fault enumeration with a model oracle",
        "duplicated entries after a duplicated block are not counted as wrong data (they are the saved entries)"])
