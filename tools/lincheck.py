"""Hook-free linearizability (LinSearch.tla): concurrent histories of the public API recorded as calls, results and
counter stamps only; TLC searches for a linearization of every per-key history against the sequential register.
Part of C01 (a history with no linearization even when losses are allowed), C06 (a strict history - nothing may be
lost - that is linearizable only with losses, or a refused Set) and C13 (overlapping loader invocations of one key)."""
import json, os
import vlib, storelib


def search(work, path, tag):
    res = work.path("lin_result_%s.json" % tag)
    r = vlib.run_tlc(work, "LinSearch", "LinSearch.cfg", workers=1, tag="lin_" + tag,
                     env={"VERIF_TRACE": path, "VERIF_RESULT": res}, timeout=1800, java_opts=["-Xss256m"])
    if r.error or r.violation or not os.path.exists(res):
        raise vlib.MachineryError("LinSearch (%s) failed: %s" % (tag, r.error or r.violation or r.out[-1500:]))
    out = json.load(open(res))
    out["_states"] = r.distinct
    return out


def run(work, v, pid, thorough):
    out = storelib.run_driver(work, "TestVerif_ApiLin", "lin", env={"VERIF_N": 120 if thorough else 24, "VERIF_SEED": vlib.seed()},
                              timeout=1800, pkg=".")
    tf = os.path.join(out, "lin.ndjson")
    res = search(work, tf, "all")
    lines = open(tf).read().splitlines()
    failed = sorted(res["failed"], key=lambda x: x[3])
    c01, c06 = [], []
    strict_failed = [x for x in failed if x[2] == "strict"]
    c01 += [x for x in failed if x[2] != "strict"]
    if strict_failed:
        # the same histories with losses allowed: still no linearization -> C01, otherwise something was lost -> C06
        p2 = work.path("lin_relaxed.ndjson")
        with open(p2, "w") as fh:
            for x in strict_failed:
                d = json.loads(lines[x[3] - 1])
                d["mode"] = "lossy"
                for cl in d["ops"]:
                    for o in cl:
                        if o["t"] == "refused":
                            o["t"] = "noop"
                fh.write(json.dumps(d) + "\n")
        res2 = search(work, p2, "relaxed")
        bad2 = {x[3] for x in res2["failed"]}
        for i, x in enumerate(strict_failed):
            (c01 if (i + 1) in bad2 else c06).append(x)

    def rep(items, kind):
        for x in items[:10]:
            rp = work.path("viol_%s_%s_k%s.ndjson" % (pid, x[0], x[1]))
            with open(rp, "w") as fh:
                fh.write(lines[x[3] - 1] + "\n")
            v.report("%s: %s (run %s, key %s, %s history, hook-free)" % (pid, kind, x[0], x[1], x[2]), rp)
    if pid == "C01":
        rep(c01, "history_of_calls_and_results_has_no_linearization")
    if pid == "C06":
        rep(c06, "strict_history_linearizable_only_if_a_stored_value_was_lost_or_a_set_refused")
    if pid == "C06":
        rep(sorted(res["lossnote"], key=lambda x: x[3]), "evicted_or_expired_notification_in_a_run_where_nothing_may_be_lost")
    if pid == "C05":
        rep(sorted(res["straynote"], key=lambda x: x[3]), "notification_for_a_value_the_key_never_held_or_given_twice")
    if pid == "C13":
        rep(sorted(res["overlap"], key=lambda x: x[3]), "two_loader_invocations_for_one_key_overlap")
    return {"hookfree_histories": len({l.split('"id":"')[1].split('"')[0] for l in lines if '"id":"' in l}),
            "hookfree_per_key_problems": res["problems"], "hookfree_operations": res["ops"],
            "hookfree_linearization_search_states": res["_states"],
            "hookfree_failed_other_property": {"C01": len(c01), "C06": len(c06) + len(res["lossnote"]), "C13": len(res["overlap"]), "C05": len(res["straynote"])},
            "_traces": res["problems"], "_states": 0}


def replay(pid, path, work):
    res = search(work, os.path.abspath(path), "replay")
    bad = {"C01": res["failed"], "C06": res["failed"] + res["lossnote"], "C05": res["straynote"]}.get(pid, res["overlap"])
    for x in bad:
        print("VIOLATION property=%s replay=%s" % (pid, path))
        print("  detail: per-key history %s key %s has no linearization" % (x[0], x[1]))
    return 1 if bad else 0
