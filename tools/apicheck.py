"""Public-API layer (cache.go / builder.go): sequential programs through the public builder and cache types, validated
by TLC against the sequential observer ApiTrace.tla. Part of the checks of C01 C02 C05 C06 C10 C13 C16."""
import os
import vlib, storelib


def run(work, v, pid, thorough):
    out = storelib.run_driver(work, "TestVerif_Api", "api", env={"VERIF_N": 300 if thorough else 40, "VERIF_SEED": vlib.seed()},
                              timeout=1800, pkg=".")
    tf = os.path.join(out, "api.ndjson")
    res = storelib.validate(work, tf, "api", module="ApiTrace", cfg="ApiTrace.cfg", timeout=1800)
    storelib.report(v, work, pid, tf, res)
    return {"public_api_programs": res["traces"], "public_api_calls_validated": res["calls"], "_traces": res["traces"]}
