"""C08 - read events keep reaching the policy; the lossy buffer never invents or wedges."""
import json, os, sys, time
import vlib, storelib

KF = {"wedged_full_ring_with_token_home_no_later_hit_recorded": "D8-read-stripe-wedged"}


def run(tier, work):
    t0 = time.time()
    thorough = tier == "thorough"
    if "--replay" in sys.argv:
        path = os.path.abspath(sys.argv[sys.argv.index("--replay") + 1])
        if vlib.read_ndjson_head(path, 1)[0].get("mode") in ("poolread", "readbusy"):
            return storelib.replay_file("C08", path, work)
        res = storelib.validate(work, path, "replay", module="ReadBufferTrace", cfg="ReadBufferTrace.cfg")
        for x in res["viol"]:
            print("VIOLATION property=C08 replay=%s\n  detail: %s at line %s" % (sys.argv[-1], x[3], x[2]))
        return 1 if res["viol"] else 0
    v = vlib.Verdict("C08", work)
    fixed = os.environ.get("VERIF_C08_DESIGN", "pinned")
    mc = storelib.tlc_mc(work, "ReadBufferMC_%s.cfg" % ("fixed_big" if thorough else "fixed"), module="ReadBuffer")
    simdir, n = storelib.tlc_sim(work, "ReadBufferSim.cfg", 1500 if thorough else 250, 601, "rb", module="ReadBufferSim")
    # walks with a lagging reader (stale head: a whole lap drained between its head load and its tail load)
    lagdir, nlag = storelib.tlc_sim(work, "ReadBufferSim_lag.cfg", 300 if thorough else 40, 1601, "rblag", module="ReadBufferSim")
    for f in sorted(os.listdir(lagdir)):
        os.replace(os.path.join(lagdir, f), os.path.join(simdir, f.replace("sim_", "sim_lag_")))
    n += nlag
    out = storelib.run_driver(work, "TestVerif_C08Buffer", "buf", env={"VERIF_IN": simdir, "VERIF_N": 120 if thorough else 20})
    tf = os.path.join(out, "buffer.ndjson")
    res = storelib.validate(work, tf, "buf", module="ReadBufferTrace", cfg="ReadBufferTrace.cfg")
    storelib.report(v, work, "C08", tf, res, lambda k, t, l: KF.get(k))
    # cache level, entry pool on: a buffered hit whose entry is recycled before the stripe is drained (StoreTrace)
    out2 = storelib.run_driver(work, "TestVerif_StorePoolReads", "poolreads", env={"VERIF_N": 60 if thorough else 10})
    tf2 = os.path.join(out2, "store_poolreads.ndjson")
    res2 = storelib.validate(work, tf2, "poolreads")
    storelib.report(v, work, "C08", tf2, res2)
    # cache level: rings fill while somebody else holds the policy lock (every key read once: no event twice; hits
    # reach the policy again afterwards)
    out3 = storelib.run_driver(work, "TestVerif_StoreReadBusy", "readbusy", env={"VERIF_N": 30 if thorough else 6})
    tf3 = os.path.join(out3, "store_readbusy.ndjson")
    res3 = storelib.validate(work, tf3, "readbusy")
    storelib.report(v, work, "C08", tf3, res3)
    cov = {"states": mc.distinct, "transitions": mc.generated, "traces_validated_against_impl": res["traces"],
           "evaluations": res["traces"], "distinct_nontrivial": n,
           "rule": "one evaluation = one schedule of atomic steps of Buffer.Add/Free (a random walk of ReadBuffer.tla with the real capacity 16, 3 readers x 14 adds) executed on the real buffer by the deterministic scheduler, or one free-running concurrent burst on one stripe; each followed by the progress probe",
           "behaviours_replayed": n, "atomic_steps_compared_with_spec": res["steps"], "segments_leaving_the_spec": res["div"],
           "events_validated": res["lines"] + res2["lines"], "pool_recycling_histories": res2["traces"], "policy_busy_read_histories": res3["traces"], "exhaustive": True,
           "model_checking_runs": [{"cfg": "ReadBufferMC_fixed*.cfg", "states": mc.distinct, "transitions": mc.generated, "wall_s": round(mc.wall, 1)}],
           "samples": [{"schedule_from_TLC": vlib.read_ndjson_head(os.path.join(simdir, sorted(os.listdir(simdir))[0]), 12)},
                       {"recorded_trace_excerpt": vlib.read_ndjson_head(tf, 10)}],
           "known_findings_seen": {k: c for k, (w_, c) in v.known.items()}}
    rc = v.finish()
    if res["div"]:
        print("note: %d schedule(s) where the real buffer left ReadBuffer.tla (model divergence; not a violation by itself)" % res["div"])
    vlib.write_evidence("C08", tier, "model_checking", cov,
                        ["atomic-operation grain through verif yield hooks placed before each atomic load/CAS/store of Buffer.Add and Free",
                         "exhaustive for Cap 2 (3 thorough) with 2-3 readers; the real capacity is covered by replayed random walks and concurrent bursts",
                         "cache level (entry pool on): sequential histories in which a buffered hit's entry object is evicted and recycled for another key before the stripe is drained; the event applied by drainRead must belong to the key the entry holds",
                         "cache level (Store.Get / LoadingStore.Get around Buffer.Add, drainRead, Free): 48 readers hit 5760 distinct keys once each while the policy lock is held elsewhere for 20-50 ms, then 2240 further keys are read sequentially; no entry's read event may reach the policy twice, and at least a quarter of the later hits must reach it",
                         "the lossy buffer may drop events: only invention, duplication, wedging and lack of progress are violations"],
                        time.time() - t0, len(v.violations))
    return rc
