"""C16 - counters and size views agree with what happened."""
import storecheck

PLAN = {
    "mc": [("StoreMC_acct.cfg", False)],
    "sims": [("StoreSim_acct.cfg", 120, 800, 61)],
    "drivers": [("TestVerif_StoreFree", 10, 60, "store_free.ndjson", None)],
    "assumptions": [
        "hit/miss counters, Len, EstimatedSize and Range are compared with the observer's own ledger at quiescent points (all calls returned, Wait done); Range and Len calls that overlap other calls or evictions are only checked for per-visit correctness",
        "the model-level part is the accounting invariant of Store.tla (EstimatedSize = policy total = resident cost at quiescence)",
    ],
}


def run(tier, work):
    return storecheck.run_plan("C16", tier, work, PLAN)
