"""C16 - counters and size views agree with what happened."""
import os
import storecheck, storelib, vlib


def extra(work, v, thorough):
    """The striped counter: Counter.tla model-checked (the plain-store design must violate), concurrent bursts on the
    real counter and on Stats() validated by TLC (CounterTrace)."""
    mc = storelib.tlc_mc(work, "CounterMC.cfg", module="Counter", tag="counter_mc")
    bad = vlib.run_tlc(work, "Counter", "CounterMC_plainstore.cfg", workers=2, timeout=300, tag="counter_plainstore")
    if bad.violation != "NoLostUpdate":
        raise vlib.MachineryError("Counter.tla: the plain-store design does not violate NoLostUpdate (got %r)" % (bad.violation,))
    out = storelib.run_driver(work, "TestVerif_CounterBurst", "counter", env={"VERIF_N": 30 if thorough else 6, "VERIF_SEED": vlib.seed()})
    tf = os.path.join(out, "counter.ndjson")
    res = storelib.validate(work, tf, "counter", module="CounterTrace", cfg="CounterTrace.cfg")
    storelib.report(v, work, "C16", tf, res)
    # a cache restored by LoadCache: Len / EstimatedSize against the entries its policy tracks (PersistTrace)
    import persistcheck
    pres, _ = persistcheck.trace_part(work, v, "C16", 40 if thorough else 8, 0, {})
    return {"loads_with_len_and_size_compared": pres["loads"], "counter_states": mc.distinct, "counter_transitions": mc.generated, "concurrent_bursts_validated": res["traces"],
            "_states": mc.distinct, "_trans": mc.generated, "_traces": res["traces"]}

PLAN = {
    "api": True,
    "mc": [("StoreMC_acct.cfg", False)],
    "sims": [("StoreSim_acct.cfg", 120, 800, 61)],
    "drivers": [("TestVerif_StoreFree", 10, 60, "store_free.ndjson", None), ("TestVerif_StoreClose", 20, 150, "store_close.ndjson", None),
                # reads of entries that are past their deadline and not reclaimed yet are misses for the counters too
                ("TestVerif_StoreTime", 24, 120, "store_time.ndjson", None),
                ("TestVerif_StoreLoad", 6, 60, "store_load.ndjson", None)],
    "extra": extra,
    "assumptions": [
        "concurrency of the counters: Counter.tla (load / compare-and-swap per stripe) model-checked for 3 processes, 2 stripes, 5 additions; 8-64 goroutines add 20 000-80 000 times each to a real UnsignedCounter and read a real cache 5 000-25 000 times each, the totals are compared after they joined",
        "a closed cache holds nothing: Len and Range begun after Close returned must report 0 / visit nothing (close driver)",
        "hit/miss counters, Len, EstimatedSize and Range are compared with the observer's own ledger at quiescent points (all calls returned, Wait done); Range and Len calls that overlap other calls or evictions are only checked for per-visit correctness",
        "the model-level part is the accounting invariant of Store.tla (EstimatedSize = policy total = resident cost at quiescence)",
    ],
}


def run(tier, work):
    return storecheck.run_plan("C16", tier, work, PLAN)
