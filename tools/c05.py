"""C05 - exactly one removal notification per departed entry, with the true reason."""
import os
import storecheck, storelib


def extra(work, v, thorough):
    # hybrid caches (one history in four with the entry pool): a Delete of a resident entry is notified (HybridTrace)
    out = storelib.run_driver(work, "TestVerif_Hybrid", "hybrid", env={"VERIF_N": 300 if thorough else 40}, timeout=2400)
    tf = os.path.join(out, "hybrid.ndjson")
    res = storelib.validate(work, tf, "hybrid", module="HybridTrace", cfg="HybridTrace.cfg", timeout=3000)
    storelib.report(v, work, "C05", tf, res)
    return {"hybrid_histories": res["traces"], "_traces": res["traces"]}


PLAN = {
    "extra": extra,
    "api": True,
    "lin": True,
    "mc": [("StoreMC_acct.cfg", False), ("StoreMC_exp_small.cfg", False), ("StoreMC_exp.cfg", True)],
    "sims": [("StoreSim_acct.cfg", 250, 2000, 61), ("StoreSim_seq.cfg", 150, 1200, 91)],
    "drivers": [("TestVerif_StoreFree", 6, 40, "store_free.ndjson", None), ("TestVerif_StoreTime", 40, 400, "store_time.ndjson", None)],
    "assumptions": [
        "true reason: EXPIRED only for an entry whose deadline (as the observer computes it from the calls) has passed, EVICTED only while the upper bound of what the policy may count exceeds MaxSize, REMOVED only after a Delete of that entry; sequential TTL programs and the time driver supply deadlines on all wheel levels",
        "exhaustive only for the small constants of spec/StoreMC_acct.cfg and StoreMC_exp*.cfg; victim choice and wheel visits are nondeterministic in Store.tla (over-approximation of W-TinyLFU and of the timer wheel)",
        "exact accounting is checked at quiescent snapshots (after Wait, no call in flight) of the default configuration (entry pool off)",
    ],
}


def run(tier, work):
    return storecheck.run_plan("C05", tier, work, PLAN)
