"""C05 - exactly one removal notification per departed entry, with the true reason."""
import storecheck

PLAN = {
    "api": True,
    "mc": [("StoreMC_acct.cfg", False), ("StoreMC_exp_small.cfg", False), ("StoreMC_exp.cfg", True)],
    "sims": [("StoreSim_acct.cfg", 250, 2000, 61)],
    "drivers": [("TestVerif_StoreFree", 6, 40, "store_free.ndjson", None)],
    "assumptions": [
        "exhaustive only for the small constants of spec/StoreMC_acct.cfg and StoreMC_exp*.cfg; victim choice and wheel visits are nondeterministic in Store.tla (over-approximation of W-TinyLFU and of the timer wheel)",
        "exact accounting is checked at quiescent snapshots (after Wait, no call in flight) of the default configuration (entry pool off)",
    ],
}


def run(tier, work):
    return storecheck.run_plan("C05", tier, work, PLAN)
