#!/bin/bash
# seedverify.sh <seeddir> <name>: in a scratch worktree of /repo HEAD: demo passes without the patch,
# fails with it, and the unedited suite passes with it. Writes <seeddir>/verify.txt
sd=$1; name=$2; wt=/tmp/sw/$name
export GOFLAGS=-mod=mod GOPROXY=off GOSUMDB=off GOTOOLCHAIN=local
mkdir -p /tmp/sw; git -C /repo worktree remove --force $wt >/dev/null 2>&1
git -C /repo worktree add --detach $wt HEAD >/dev/null 2>&1 || { echo "worktree failed" > $sd/verify.txt; exit 1; }
cd $wt
pkg=$(grep -m1 '^package' $sd/zz_seed_demo_test.go | awk '{print $2}')
if [ "$pkg" = "internal" ]; then dir=internal; target=./internal/; else dir=.; target=.; fi
fn=$(grep -o 'func Test[A-Za-z0-9_]*' $sd/zz_seed_demo_test.go | head -1 | awk '{print $2}')
cp $sd/zz_seed_demo_test.go $dir/zz_seed_demo_test.go
{
echo "HEAD $(git rev-parse --short HEAD)  demo=$fn pkg=$target"
go test -vet=off -count=1 -timeout 5m -run "^$fn\$" $target >/tmp/sw/$name.nopatch.log 2>&1; echo "demo without patch: exit $?"
git apply $sd/patch.diff && echo "patch applied" || echo "PATCH FAILED"
go build ./... && echo "build ok"
go test -vet=off -count=1 -timeout 5m -run "^$fn\$" $target >/tmp/sw/$name.patch.log 2>&1; echo "demo with patch: exit $?"
rm -f $dir/zz_seed_demo_test.go
go test -vet=off -count=1 -timeout 25m ./... >/tmp/sw/$name.suite.log 2>&1; rc=$?
echo "suite with patch: exit $rc  $(grep -E '^--- FAIL' /tmp/sw/$name.suite.log | tr '\n' ' ')"
if [ $rc -ne 0 ]; then
  fails=$(grep -E '^--- FAIL' /tmp/sw/$name.suite.log | awk '{print $3}' | sort -u | paste -sd'|')
  go test -vet=off -count=3 -timeout 25m -run "^($fails)\$" . >/tmp/sw/$name.suite2.log 2>&1; echo "rerun of failed tests ($fails) x3 with patch: exit $?"
  git checkout -q -- . ; go test -vet=off -count=3 -timeout 25m -run "^($fails)\$" . >/tmp/sw/$name.suite3.log 2>&1; echo "same tests x3 without patch: exit $?"
fi
} > $sd/verify.txt 2>&1
cd /; git -C /repo worktree remove --force $wt >/dev/null 2>&1
