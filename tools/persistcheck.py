"""Shared runner of C11 / C12: Persist.tla exhaustive run, real save/load round trips with block- and
byte-level damage, validated by TLC (PersistTrace)."""
import json, os, sys, time
import vlib, storelib

KF = {
    "same_size_load_lost_entries_of_adapted_window": "D11a-adapted-window-truncated-on-load",
    "loaded_mixed_costs_above_new_capacity": "D11b-mixed-costs-overshoot-smaller-cache",
    "damaged_stream_without_leading_metadata_block_loaded": "D12-metadata-block-not-required-first",
    "other_version_loaded_from_stream_without_leading_metadata_block": "D12-metadata-block-not-required-first",
}


def trace_part(work, v, pid, n, nbytes, others):
    """Run the persistence driver, validate with PersistTrace and report the violations of property pid."""
    out = storelib.run_driver(work, "TestVerif_Persist", "persist", env={"VERIF_N": n, "VERIF_BYTES": nbytes}, timeout=2400)
    tf = os.path.join(out, "persist.ndjson")
    res = storelib.validate(work, tf, "persist", module="PersistTrace", cfg="PersistTrace.cfg", timeout=3000)
    # a violation's replay file: the "saved" line of its run plus the offending line
    lines = open(tf).read().splitlines()
    seen = set()
    for (prop, tid, line, kind) in res["viol"]:
        if prop != pid:
            others[prop] = others.get(prop, 0) + 1
            continue
        if (tid, kind) in seen:
            continue
        seen.add((tid, kind))
        rp = work.path("viol_%s_%s_%s.ndjson" % (pid, tid, kind[:30]))
        with open(rp, "w") as fh:
            for ln in lines:
                if '"ev":"saved"' in ln and '"id":"%s"' % tid in ln:
                    fh.write(ln + "\n")
            fh.write(lines[line - 1] + "\n")
        v.report("%s: %s in run %s at line %s" % (pid, kind, tid, line), rp, sig=KF.get(kind))
    return res, lines


def run(pid, tier, work, assumptions):
    t0 = time.time()
    thorough = tier == "thorough"
    if "--replay" in sys.argv:
        path = os.path.abspath(sys.argv[sys.argv.index("--replay") + 1])
        res = storelib.validate(work, path, "replay", module="PersistTrace", cfg="PersistTrace.cfg")
        bad = [x for x in res["viol"] if x[0] == pid]
        for x in bad:
            print("VIOLATION property=%s replay=%s\n  detail: %s at line %s" % (pid, path, x[3], x[2]))
        return 1 if bad else 0
    v = vlib.Verdict(pid, work)
    mc = storelib.tlc_mc(work, "PersistMC.cfg", module="PersistMC", tag="pmc", timeout=2400)
    res, lines = trace_part(work, v, pid, 150 if thorough else 14, 400 if thorough else 60, others := {})
    cov = {"states": mc.distinct, "transitions": mc.generated, "traces_validated_against_impl": res["traces"],
           "evaluations": res["loads"] + res["byteloads"], "distinct_nontrivial": res["loads"] + res["byteloads"],
           "rule": "one evaluation = one Recover of a saved stream (clean, damaged at block level, or damaged at byte level) into a fresh cache of a chosen size after a chosen elapsed time; saved states come from seeded fills with mixed costs, TTLs on several wheel levels, promotions and adaptive window resizing",
           "loads_compared_with_spec": res["loads"], "loads_differing_from_spec": res["div"], "byte_level_loads": res["byteloads"],
           "model_checking_runs": [{"cfg": "PersistMC.cfg", "states": mc.distinct, "transitions": mc.generated, "wall_s": round(mc.wall, 1)}],
           "violations_of_other_properties_seen": others, "exhaustive": True,
           "samples": [json.loads(lines[1])["fault"], json.loads(lines[0])["blocks"][:3]],
           "known_findings_seen": {k: c for k, (w_, c) in v.known.items()}}
    rc = v.finish()
    if res["div"]:
        print("note: %d load(s) whose result differs from Load of Persist.tla (model divergence; not a violation by itself)" % res["div"])
    vlib.write_evidence(pid, tier, "model_checking", cov, assumptions, time.time() - t0, len(v.violations))
    return rc
