"""C02 - resident cost within MaxSize once writes drain; nothing untracked."""
import os
import storecheck, storelib


def extra(work, v, thorough):
    # hybrid caches: resident entries within MaxSize once writes and the secondary workers have drained (HybridTrace)
    out = storelib.run_driver(work, "TestVerif_Hybrid", "hybrid", env={"VERIF_N": 400 if thorough else 60}, timeout=2400)
    tf = os.path.join(out, "hybrid.ndjson")
    res = storelib.validate(work, tf, "hybrid", module="HybridTrace", cfg="HybridTrace.cfg", timeout=3000)
    storelib.report(v, work, "C02", tf, res)
    # caches restored by LoadCache: every resident entry tracked, policy total = resident cost (PersistTrace)
    import persistcheck
    pres, _ = persistcheck.trace_part(work, v, "C02", 40 if thorough else 8, 0, {})
    return {"hybrid_histories": res["traces"], "loads_with_accounting_compared": pres["loads"], "_traces": res["traces"] + pres["traces"]}

PLAN = {
    "extra": extra,
    "api": True,
    "mc": [("StoreMC_acct.cfg", False), ("StoreMC_exp_small.cfg", False), ("StoreMC_exp.cfg", True)],
    "sims": [("StoreSim_acct.cfg", 250, 2000, 61), ("StoreSim_delta.cfg", 1500, 8000, 46)],
    "drivers": [("TestVerif_StoreFree", 6, 40, "store_free.ndjson", None), ("TestVerif_StoreStall", 10, 80, "store_stall.ndjson", None),
                # loading Gets (insert event built after the loader's critical section) racing updates of the same key
                ("TestVerif_StoreLoad", 6, 60, "store_load.ndjson", None)],
    "assumptions": [
        "in-flight clause: on every insertion the observer counts the resident entries whose NEW event has not been applied and compares with queue capacity + batch size + client processes + 1; the stall driver holds the policy lock while 2-4 writers insert 60 new keys into a cache with queue 2-8 and batch 1-4",
        "exhaustive only for the small constants of spec/StoreMC_acct.cfg and StoreMC_exp*.cfg; victim choice and wheel visits are nondeterministic in Store.tla (over-approximation of W-TinyLFU and of the timer wheel)",
        "exact accounting is checked at quiescent snapshots (after Wait, no call in flight) of the default configuration (entry pool off)",
    ],
}


def run(tier, work):
    return storecheck.run_plan("C02", tier, work, PLAN)
