#!/usr/bin/env python3
"""seedstore.py <Cxx> <mN> <seeddir> <detected-by csv> <needs text>: copy a confirmed seeded change into /verif/seeded/<Cxx>-<mN>/"""
import json, os, shutil, sys
pid, mn, sd, det, needs = sys.argv[1:6]
dst = os.path.join(os.path.dirname(os.path.dirname(os.path.abspath(__file__))), "seeded", "%s-%s" % (pid, mn))
os.makedirs(dst, exist_ok=True)
for f in ("patch.diff", "zz_seed_demo_test.go", "demo_cmd.txt", "notes.md", "verify.txt"):
    if os.path.exists(os.path.join(sd, f)):
        shutil.copy(os.path.join(sd, f), os.path.join(dst, f.replace("zz_seed_demo_test.go", "demo_test.go.txt")))
ver = open(os.path.join(sd, "verify.txt")).read() if os.path.exists(os.path.join(sd, "verify.txt")) else ""
meta = {"property": pid, "breaks": pid, "needs_to_manifest": needs,
        "confirmed": {"how": "tools/seedverify.sh in a scratch worktree of /repo HEAD: demonstration passes without the patch, fails with it, unedited suite with the patch (known load-sensitive tests compared with and without the patch)",
                      "log": ver.strip().splitlines()},
        "detected_by_checks": [x for x in det.split(",") if x],
        "ran": "git -C /repo apply patch.diff; ./check <id> quick; git -C /repo checkout -- .   (tools/seedrun.py)"}
json.dump(meta, open(os.path.join(dst, "meta.json"), "w"), indent=1)
print("stored", dst)
