"""C07 - eviction policy state stays structurally consistent and within bounds."""
import json, os, sys, time
import vlib, storelib

CFG = "SPECIFICATION TraceSpec\nCONSTANTS\n  Cap = %d\n  N = 6\n  SignedCmp = TRUE\n"


def validate_all(work, out, caps):
    tot = {"lines": 0, "viol": [], "div": 0, "ops": 0, "traces": 0}
    files = {}
    for c in caps:
        tf = os.path.join(out, "tlfu_cap%d.ndjson" % c)
        if not os.path.exists(tf):
            continue
        res = storelib.validate(work, tf, "tlfu%d" % c, module="TinyLfuTrace", cfg="TinyLfuTrace_gen.cfg",
                                extra_files={"TinyLfuTrace_gen.cfg": CFG % c})
        for k in ("lines", "div", "ops", "traces"):
            tot[k] += res[k]
        for x in res["viol"]:
            tot["viol"].append(x)
            files[x[1]] = tf
    return tot, files


def run(tier, work):
    t0 = time.time()
    thorough = tier == "thorough"
    if "--replay" in sys.argv:
        path = os.path.abspath(sys.argv[sys.argv.index("--replay") + 1])
        cap = vlib.read_ndjson_head(path, 1)[0]["cap"]
        res = storelib.validate(work, path, "replay", module="TinyLfuTrace", cfg="TinyLfuTrace_gen.cfg",
                                extra_files={"TinyLfuTrace_gen.cfg": CFG % cap})
        for x in res["viol"]:
            print("VIOLATION property=C07 replay=%s\n  detail: %s at line %s" % (path, x[3], x[2]))
        return 1 if res["viol"] else 0
    v = vlib.Verdict("C07", work)
    states = trans = 0
    mcs = []
    for c in ([1, 2, 3, 4, 5] if thorough else [1, 2, 3, 4]):
        r = storelib.tlc_mc(work, "TinyLfuMC_cap%d.cfg" % c, module="TinyLfuMC", tag="mc%d" % c)
        states += r.distinct
        trans += r.generated
        mcs.append({"cfg": "TinyLfuMC_cap%d.cfg" % c, "states": r.distinct, "transitions": r.generated, "wall_s": round(r.wall, 1)})
    # capacity arithmetic of the climber for unbounded integers: inductive invariant with Apalache
    ind = []
    for (init, inv, length) in (("Init", "IndInv", 0), ("IndInit", "IndInv", 1), ("IndInit", "CapsOK", 0)):
        o = vlib.run_apalache(work, "TinyLfuCaps", init, inv, length, cinit="CInit")
        ind.append({"init": init, "inv": inv, "length": length, "outcome": o})
        if o != "NoError":
            raise vlib.MachineryError("TinyLfuCaps.tla: %s => %s (length %d) is not valid: %s" % (init, inv, length, o))
    out = storelib.run_driver(work, "TestVerif_C07Tlfu", "tlfu", env={"VERIF_N": 60 if thorough else 8})
    tot, files = validate_all(work, out, range(1, 9))
    seen = set()
    for (prop, tid, line, kind) in tot["viol"]:
        if (tid, kind) in seen:
            continue
        seen.add((tid, kind))
        rp = work.path("viol_C07_%s_%s.ndjson" % (tid, kind[:30]))
        storelib.cut_segment(files[tid], tid, rp)
        v.report("C07: %s in trace %s at line %s" % (kind, tid, line), rp)
    sample = vlib.read_ndjson_head(os.path.join(out, "tlfu_cap4.ndjson"), 4)
    cov = {"states": states, "transitions": trans, "traces_validated_against_impl": tot["traces"],
           "evaluations": tot["ops"], "distinct_nontrivial": tot["ops"],
           "rule": "one evaluation = one white-box step (insert/access/cost update/remove/climb+resize) of the real TinyLfu with arbitrary sketch contents and sample counters, capacities 1..8, 3..6 entries; each logged state is checked against the C07 invariants and each transition against TinyLfu.tla (exists admit outcomes)",
           "policy_steps_validated": tot["ops"], "steps_not_explained_by_the_spec": tot["div"], "model_checking_runs": mcs,
           "samples": sample, "exhaustive": True,
           "apalache_inductive_invariant": {"spec": "TinyLfuCaps.tla", "obligations": ind,
                                            "meaning": "for every total capacity and every step amount: window capacity >= 1, protected capacity >= 0, sum conserved, also between the two halves of resizeWindow"}}
    # the intrusive lists the regions are made of (List.tla at pointer grain)
    import listcheck
    cov.update(listcheck.stage(work, v, "C07", thorough))
    rc = v.finish()
    if tot["div"]:
        print("note: %d step(s) of the real policy are not a transition of TinyLfu.tla for any admit outcomes (model divergence)" % tot["div"])
    vlib.write_evidence("C07", tier, "model_checking", cov,
                        ["TLC exhaustive for capacities 1..4 (5 thorough), 3-4 entries, all operation sequences up to the configured length, every admit outcome and climber amount",
                         "the sketch is abstracted to arbitrary admit decisions, the climber's float arithmetic to an arbitrary integer amount clamped as climb() does",
                         "TinyLfuCaps.tla (Apalache, unbounded integers) covers only the capacity arithmetic; its clamp is the one of TinyLfu.tla, whose transitions are compared step by step with the real policy",
                         "white-box driver calls the policy as sinkWrite does (policyWeight updated before Set/UpdateCost)"],
                        time.time() - t0, len(v.violations))
    return rc
