#!/bin/sh
# Offline setup: verify tools, create scratch dirs, warm the Go build cache.
set -e
cd "$(dirname "$0")/.."
for t in java python3 go tlc; do command -v $t >/dev/null || { echo "missing $t"; exit 1; }; done
mkdir -p work evidence
export GOFLAGS=-mod=mod GOPROXY=off GOSUMDB=off GOTOOLCHAIN=local
(cd /repo && go build ./... && go vet -tags verif ./internal/ >/dev/null 2>&1 || true)
echo setup ok
