"""C13 - loading cache: one load in flight per key, result shared, failures not cached."""
import json, os, sys, time
import vlib, storelib, storecheck


def group_part(work, v, thorough):
    states = trans = 0
    mcs = []
    for cfg in (["SingleFlightMC_a.cfg", "SingleFlightMC_b.cfg"] if thorough else ["SingleFlightMC_a.cfg"]):
        r = storelib.tlc_mc(work, cfg, module="SingleFlight", deadlock=True, tag=cfg[:-4])
        states += r.distinct
        trans += r.generated
        mcs.append({"cfg": cfg, "states": r.distinct, "transitions": r.generated, "wall_s": round(r.wall, 1)})
    simdir, n = storelib.tlc_sim(work, "SingleFlightSim.cfg", 2500 if thorough else 400, 81, "sf", module="SingleFlightSim")
    out = storelib.run_driver(work, "TestVerif_C13Group", "sf", env={"VERIF_IN": simdir})
    tf = os.path.join(out, "sf.ndjson")
    res = storelib.validate(work, tf, "sf", module="SingleFlightTrace", cfg="SingleFlightTrace.cfg")
    storelib.report(v, work, "C13", tf, res)
    # hook-free stress on one group (windows between atomic steps where no hook sits), judged by SfStress.tla
    out2 = storelib.run_driver(work, "TestVerif_C13SfStress", "sfstress", env={"VERIF_N": 18 if thorough else 6}, timeout=900)
    tf2 = os.path.join(out2, "sfstress.ndjson")
    res2 = storelib.validate(work, tf2, "sfstress", module="SfStress", cfg="SfStress.cfg")
    seen2 = set()
    for (prop, tid, line, kind) in res2["viol"]:
        if (tid, kind) not in seen2:
            seen2.add((tid, kind))
            v.report("C13: %s in stress run %s at line %s" % (kind, tid, line), tf2)
    sm = json.load(open(os.path.join(out2, "sfstress.summary.json")))
    return {"singleflight_stress_calls": sm["calls"], "singleflight_stress_calls_judged_by_tlc": res2["calls"],
            "singleflight_states": states, "singleflight_transitions": trans, "singleflight_model_checking_runs": mcs,
            "singleflight_schedules_replayed": n, "singleflight_calls_validated": res["calls"],
            "singleflight_sample": vlib.read_ndjson_head(tf, 12), "_states": states, "_trans": trans, "_traces": res["traces"]}


def flight_part(work, thorough):
    """LoadFlight.tla: the loading Get composed with the shard's single-flight group (lookup, join or lead, lock, load and
    store, unlock, finish) next to Set / Delete / losses on the same key. The repaired design (the call leaves the table
    inside the loader's critical section) satisfies Served / OneLoader / Quiet / Returns; the design as it was (D21) must
    violate Served."""
    r = storelib.tlc_mc(work, "LoadFlightMC_big.cfg" if thorough else "LoadFlightMC.cfg", module="LoadFlight", tag="loadflight", workers=8)
    p = vlib.run_tlc(work, "LoadFlight", "LoadFlightMC_pinned.cfg", workers=4, tag="loadflight_pinned", timeout=600)
    vlib.tlc_must_pass(p, "LoadFlight pinned")
    if p.violation != "Served":
        raise vlib.MachineryError("LoadFlight.tla with Forget = FALSE should violate Served (D21), got %s" % p.violation)
    return {"loadflight_states": r.distinct, "loadflight_transitions": r.generated, "loadflight_pinned_design_violates": p.violation,
            "_states": r.distinct, "_trans": r.generated}


def extra(work, v, thorough):
    g = group_part(work, v, thorough)
    f = flight_part(work, thorough)
    for k in ("_states", "_trans"):
        g[k] = g.get(k, 0) + f.pop(k)
    g.update(f)
    return g


PLAN = {
    "api": True,
    "lin": True,
    "mc": [("StoreMC_acct.cfg", False)],
    "sims": [],
    "drivers": [("TestVerif_StoreLoad", 40, 400, "store_load.ndjson", None),
                ("TestVerif_StoreFree", 6, 30, "store_free.ndjson", None)],
    "extra": extra,
    "assumptions": [
        "LoadFlight.tla composes the loading Get with the shard's single-flight table for one key (2 clients x 3 operations, 3 x 2 thorough): a value handed to a caller was held by the key, or produced by a loader invocation running, at some moment of that call; the late-join scenario holds the real leader at the hook point between its unlock and the table removal while the value is deleted / overwritten and deleted / expires, and a late caller then asks for the key",
        "Group.Do is stepped through the verif hook points of singleflight.go (scripted loader outcomes ok/err/panic/Goexit); at cache level loaders sleep 20-400 us so that callers and writers pile up",
        "cache level: loader runs per key must not overlap, a caller that missed gets the value of its own load or of a load that ran while it was waiting, the loaded value is stored with the loader's cost and TTL atomically with the load, a failed load stores nothing, and afterwards plain operations and a new load on the same key return",
    ],
}


def run(tier, work):
    return storecheck.run_plan("C13", tier, work, PLAN)
