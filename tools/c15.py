"""C15 - hybrid cache: evicted entries reach the secondary tier; memory stays bounded."""
import hybridcheck


def run(tier, work):
    return hybridcheck.run("C15", tier, work, [
        "admission probability 1, hand-off queue never full (the driver waits for the workers through the verif completion counter), secondary Set failing on command in a quarter of the runs",
        "every capacity eviction must find or put the identical value in the secondary tier before the slot disappears; after settling every live key is found again without reloading; resident entries <= MaxSize after settling also when the secondary store fails"])
