"""C14 - hybrid cache never serves a stale, deleted or expired value from either tier."""
import hybridcheck


def run(tier, work):
    return hybridcheck.run("C14", tier, work, [
        "Hybrid.tla: two-tier model (memory map, secondary map, from-secondary flag, hand-off, worker copy and removal by identity) checked exhaustively for one sequential client with asynchronous workers",
        "real code: sequential client, two workers, admission probability 1, virtual clock; every secondary-store call is logged by the scripted store",
        "freshness is judged against the last COMPLETED Set/Delete of the key (sequential client)"])
