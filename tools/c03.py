"""C03 - no entry is served after its expiry deadline."""
import storecheck, persistcheck

KINDS = dict(storecheck.KF_KINDS)
KINDS["served_after_deadline_under_stalled_policy_lock"] = "D9-stale-cached-clock-under-stalled-policy-lock"


def classify(kind, tid, line):
    return KINDS.get(kind)


def extra(work, v, thorough):
    # entries restored by LoadCache: what the loaded cache serves before its first tick (PersistTrace)
    res, _ = persistcheck.trace_part(work, v, "C03", 60 if thorough else 10, 0, {})
    return {"loads_with_gets_after_load": res["loads"], "_traces": res["traces"]}


PLAN = {
    "mc": [("StoreMC_time_fresh.cfg", False)],
    "sims": [("StoreSim_seq.cfg", 150, 1200, 91), ("StoreSim_time.cfg", 150, 1200, 71)],
    "drivers": [("TestVerif_StoreTime", 60, 600, "store_time.ndjson", None),
                ("TestVerif_StoreFree", 4, 30, "store_free.ndjson", None)],
    "classify": classify,
    "extra": extra,
    "assumptions": [
        "entries restored by LoadCache: after every clean load of the persistence driver each key is read before the first tick; a hit must be a saved entry whose deadline had not passed at load time (PersistTrace)",
        "virtual clock (hook in clock.NowNano); deadlines are recomputed by the observer as call time + TTL (saturating) and compared with what the code stored; a hit is late if deadline <= the time of the call (the weakest reading)",
        "nanosecond-grain scenarios stay below 2^30 ns (TLC integers); the 30 s look-ahead and the wheel levels are exercised at 2^20 ns grain",
        "model: StallOnly = TRUE means the ticker refreshes the cached clock every time unit unless it is kept waiting for the policy lock",
    ],
}


def run(tier, work):
    return storecheck.run_plan("C03", tier, work, PLAN)
