#!/usr/bin/env python3
"""Regenerates /verif/MANIFEST.json from the table below (keeps it valid at all times)."""
import json, os, subprocess
V = os.path.dirname(os.path.dirname(os.path.abspath(__file__)))

CHECKS = {
 "C04": dict(level="model_checking", ref="4 C04",
   technique="TLA+ spec TimerWheel.tla model-checked by TLC; TLC behaviours replayed into the real TimerWheel; recorded traces validated by TLC (TimerWheelTrace)",
   text="TLC enumerates every schedule/re-schedule/deschedule/advance sequence of a scaled-down five-level wheel and checks NeverEarly/NoOverdue; "
        "TLC-generated behaviours are executed on the real TimerWheel (scaled geometry, white-box) and a boundary-value driver runs the real geometry; "
        "every recorded step is validated by TLC against the specification and the two property invariants.",
   note="Exhaustive only for the scaled geometry and the configured offset/step sets; the real geometry is covered by trace validation of seeded boundary-value runs. Advance times are explicit (wheel level)."),
 "C17": dict(level="model_checking", ref="4 C17",
   technique="TLA+ spec Sketch.tla model-checked by TLC; traces of the real CountMinSketch (with the index tuples the code computed) validated by TLC (SketchTrace)",
   text="TLC checks NeverUnder/AdditionsBelowSample/InRange/NeverShrinks on a 16-word table with overlapping keys for all add/bulk-add sequences; "
        "the real sketch is driven with adversarial hashes over table sizes 16..2^20 (2^24 thorough), each step logged with the positions its own indexOf yields, and TLC re-executes the specification along every trace.",
   note="64-bit hashing is not evaluated in TLA+: positions come from the code (logged). Exhaustive only for the tiny table."),
}

STORE_T = "TLA+ spec Store.tla (write pipeline: shard map, bounded queue, maintenance batches, eviction, expiry, Wait, Close) model-checked by TLC; TLC behaviours (StoreSim) replayed into the real Store by a gate scheduler over verif hook points; every recorded trace validated by TLC (StoreTrace observer); for C01 C02 C05 C06 C10 C13 C16 also sequential programs through the public API (cache.go / builder.go) validated by TLC against the sequential observer ApiTrace.tla; for C01 C05 C06 C13 also hook-free concurrent histories of the public API (calls, results and counter stamps only) for which TLC searches a linearization against the sequential register of LinSearch.tla"
CHECKS.update({
 "C01": dict(level="model_checking", ref="4 C01", technique=STORE_T,
   text="TLC explores all interleavings of two-phase writes, deletes, evictions and expiries of Store.tla for small constants (removal of a map slot is by identity); "
        "TLC-generated interleavings are replayed into the real cache and free-running concurrent histories (distinct value per write; plain, loading, doorkeeper, entry pool) are recorded; "
        "TLC validates every trace against the sequential map: each hit returns the latest value of that key's entry, each miss is justified, returned values equal the values read under the lock, and the resident set equals the history at every quiescent snapshot.",
   note="Linearization points are the hook events emitted under the shard lock; independently of them, hook-free histories (calls and results only) are decided by a linearization search in TLC (LinSearch.tla) - this found D21 (a late caller joined a finished single-flight call and was handed a deleted value), since repaired; the loading path is also model-checked as LoadFlight.tla. Exhaustive only for the small constants. The atomicity of a shard section is the contract of the reader-biased lock: the real RBMutex is stepped through its atomic operations and compared with RBMutex.tla (model-checked under C19)."),
 "C02": dict(level="model_checking", ref="4 C02", technique=STORE_T,
   text="TLC checks AcctInv/InFlightBound of Store.tla over all arrival orders of insert/update/delete events, batch boundaries, evictions and the expiry re-check window; "
        "the same interleavings are forced on the real Store by parking its goroutines at hook points (incl. the yield before the deadline re-check); white-box snapshots at quiescent points "
        "(map, three policy regions, wheel, weightedSize, Len, EstimatedSize) are validated by TLC: resident cost = policy total <= MaxSize, tracked = resident exactly once with the current cost, deadlines on the wheel.",
   note="Exact accounting for the default configuration (entry pool off). Victim choice and wheel visits are nondeterministic in the model."),
 "C03": dict(level="model_checking", ref="4 C03", technique=STORE_T,
   text="TLC checks the time fragment of Store.tla (cached clock refreshed by the ticker only after it holds the policy lock, three-way deadline test of getFromShard, clock jumps, stalls by any lock holder) for 'no hit at or after the deadline'; "
        "sequential and TLC-generated schedules run under a virtual clock at nanosecond grain (deadline-1 / deadline / deadline+1, saturating TTL) and at 2^20 ns grain around the 30 s look-ahead and the wheel levels, with ticks, Range, loader-backed Get and policy-lock stalls; "
        "TLC recomputes every deadline as call time + TTL and validates each hit against it.",
   note="Virtual clock through the verif hook in clock.NowNano; a late hit is judged against the time of the call. The ticker is driven by the harness: outside stalls the cached clock lags by less than one second as in real time."),
 "C05": dict(level="model_checking", ref="4 C05", technique=STORE_T,
   text="TLC checks NotifInv/NotifComplete (at most one notification per incarnation, only after it left, reason of whoever removed the slot, exactly one at quiescence) over all overlaps of delete, eviction and expiry; "
        "replayed and free-running executions log every listener call; TLC matches each call to the removal that owes it (key, value held when leaving, reason) and requires stored = resident + notified at every quiescent snapshot.",
   note="Listener calls are attributed to the goroutine that removed the slot; Close (which clears the map without notifications) is excluded."),
 "C06": dict(level="model_checking", ref="4 C06", technique=STORE_T,
   text="Sequential programs (Set/SetWithTTL/Get/Delete/Wait over 2 keys, costs up to MaxSize+1, TTLs, doorkeeper on/off) are generated by TLC from Store.tla with maintenance and ticker steps interleaved at will and executed under a virtual clock; "
        "TLC validates: false only for cost > MaxSize or a doorkeeper rejection and then nothing stored; true implies stored and readable; deadlines follow the call; removals only by Delete, own deadline or eviction under pressure; "
        "nothing with cost > MaxSize admitted. A concurrent configuration (cost changes of one key arriving reordered) checks that nothing is evicted while the policy total is within capacity.",
   note="Sampled programs (random walks), not all; the Bloom filter of the doorkeeper is not modelled (its decisions are taken from the hook event)."),
 "C07": dict(level="model_checking", ref="4 C07",
   technique="TLA+ spec TinyLfu.tla (three regions with recorded sizes/counts, eviction walk, climber clamp, window resizing) model-checked by TLC; every white-box step of the real TinyLfu validated by TLC as a transition of the spec (TinyLfuTrace, exists admit outcomes) with the C07 invariants on every logged state",
   text="TLC checks Structure/Bounds/WithinCap/termination of the eviction walk for capacities 1..4 (5 thorough), all sequences of insert/access/cost-update/remove/resize, every admit outcome and every climber amount; "
        "a seeded white-box driver runs the real policy for capacities 1..8 with arbitrary sketch contents and sample counters, and TLC validates every logged state against the invariants and every transition against TinyLfu.tla.",
   note="Sketch abstracted to arbitrary admit decisions, float hill-climber arithmetic to an arbitrary integer amount; the capacity arithmetic alone is also checked for unbounded integers (TinyLfuCaps.tla, inductive invariant with Apalache: window >= 1, protected >= 0, sum conserved for every total capacity and step)."),
 "C08": dict(level="model_checking", ref="4 C08",
   technique="TLA+ spec ReadBuffer.tla (one action per atomic operation of Buffer.Add/Free) model-checked by TLC; TLC schedules replayed step by step on the real buffer by a deterministic scheduler over verif yield hooks; every step compared with the spec and NoInvent/progress validated by TLC (ReadBufferTrace)",
   text="TLC checks NoInvent, token ownership and NoWedge over all interleavings of 2-3 readers on a ring of capacity 2-3 with the batch handed back after an arbitrary delay; random walks of the same spec with the real capacity 16 are executed on the real buffer one atomic step at a time "
        "(state after every step compared with the spec), concurrent bursts run free, and after each the trace must show that later sequential hits are delivered again.",
   note="Atomic-step grain relies on the verif yield hooks before each atomic load/CAS/store; dropping events is allowed (lossy), only invention, duplication and loss of progress are violations."),
 "C09": dict(level="model_checking", ref="4 C09",
   technique="TLA+ spec TinyLfuHot.tla (TinyLfu.tla with exact frequencies under the hot-set workload) model-checked by TLC for retention; request traces of the real cache validated by TLC (C09Trace) which executes a strict LRU reference of the same size along each trace",
   text="TLC checks that a hot set of up to half the cache that keeps being read is never evicted by any interleaving of one-off insertions and sketch agings (capacities 4 and 6, exact admission rule); generated hot-set and Zipf traces are served by the real cache "
        "(plain/loading, uniform/mixed costs, fresh or after concurrent use) and TLC compares hit counts with an LRU reference it executes on the same requests, and checks retention and convergence of the hot-set hit ratio.",
   note="Retention is model-checked for small capacities; the Zipf-versus-LRU clause is a measurement (exploration) on sizes up to 200 (1000 thorough) with a 1% tolerance; hybrid caches and sizes of 10^4..10^5 are not evaluated."),
 "C10": dict(level="model_checking", ref="4 C10", technique=STORE_T,
   text="TLC checks the close configuration of Store.tla with deadlock checking on (a call that can never return is a deadlock): writers parked on a full queue, waiters and Close at every point; the schedules are replayed on the real store with the write queue shrunk to 1-2 slots, "
        "free-running histories race Close against every kind of call with a watchdog per call, post-close behaviour is validated by TLC (reads miss, writes have no effect, loading Get fails with the closed error, Wait returns) and a goroutine census after Close must equal the one before the store was created.",
   note="A hang in a replayed schedule counts only if it reproduces; hybrid caches: Hybrid.tla has Close and the invariant ClosedQuiet (HybridMC_d19.cfg, the design before the repair D19, must violate it), and every history of the hybrid driver ends with Close, Set/Get on every key and a goroutine census, validated by HybridTrace."),
 "C11": dict(level="model_checking", ref="4 C11",
   technique="TLA+ spec Persist.tla (block-level model of SaveCache/LoadCache: metadata, window, protected, probation, end blocks; Load follows Recover block by block) model-checked by TLC over all small caches x targets x elapsed times; real save/load round trips validated by TLC (PersistTrace evaluates Load of the spec on the decoded block list of each real stream and compares)",
   text="TLC enumerates every small saved cache (regions, mixed costs, deadlines), target size and elapsed time and checks the round-trip predicates of Persist.tla; real caches (mixed costs, TTLs on several wheel levels, promotions, adaptive window resizing) are saved, the stream is decoded into its blocks and loaded into caches of the same, smaller and larger size after shifted clock origins; "
        "TLC compares every loaded region with Load of the specification and checks: same size restores every unexpired entry in region and order with cost, deadline, clock origin and at least the saved frequency; smaller size restores a most-recently-used prefix per region within the new capacity; the loaded cache is consistent.",
   note="int keys and values, one block per region in real streams (multi-block regions only in the model); elapsed time by shifting the saved clock origin."),
 "C12": dict(level="model_checking", ref="4 C12",
   technique="TLA+ spec Persist.tla with block-level faults (truncate, drop, duplicate, swap, retype header, corrupt checksum, wrong version) model-checked by TLC; the same faults applied to real streams and validated by TLC against Load of the spec; byte-level damage enumerated in Go and judged by the spec's FaultSafe predicate",
   text="TLC checks over all small caches and all single block-level faults that a truncated stream is refused, that a damaged stream gives an error or loads only saved entries under the saved clock origin, and that another version is refused before anything is loaded; every such fault is applied to the decoded block list of real streams, re-encoded and loaded, and TLC compares the outcome with the specification; "
        "seeded truncation offsets and single-bit/single-byte changes of the raw bytes are loaded as well and judged by the same predicate (no panic, no invented key/value/longer life).",
   note="Byte-level part is fault enumeration with a model oracle (seeded sample in quick, larger in thorough), not model checking; duplicated entries after a duplicated block are not counted as wrong data."),
 "C14": dict(level="model_checking", ref="4 C14",
   technique="TLA+ spec Hybrid.tla (memory tier, secondary tier, from-secondary flag, hand-off queue, worker copy and removal by identity) model-checked by TLC; histories of the real hybrid store with a scripted secondary store validated by TLC (HybridTrace freshness observer)",
   text="TLC checks Fresh (a Get never returns a value other than the last Set's, never a deleted or expired one) and Demoted over all interleavings of Set/Get/Delete/evict/expire/worker steps for 2 keys; seeded histories run on the real hybrid store (simple and loading, two workers, virtual clock, secondary calls logged by the scripted store) "
        "and TLC validates every Get against the last completed Set/Delete of its key and its deadline, distinguishing values served from memory and from the secondary tier.",
   note="Sequential client with asynchronous workers (plus a late-join scenario: the promoting Get held between its unlock and the removal of its single-flight call while the key is deleted from both tiers or expires, D21); the exhaustive run uses the design with the three known hybrid findings repaired (FixB/FixC/FixD), HybridMC_pinned.cfg (the code as it is) violates Fresh/Demoted as recorded in known_findings.json."),
 "C15": dict(level="model_checking", ref="4 C15",
   technique="TLA+ spec Hybrid.tla model-checked by TLC (Demoted); histories of the real hybrid store with a scripted, optionally failing secondary store validated by TLC (HybridTrace demotion / memory-bound observer)",
   text="TLC checks that once the workers are idle every live key is in one of the tiers with its value; on the real store every capacity eviction is followed up: hand-off, worker copy (secondary Set logged) before the slot is removed, direct removal only when the secondary tier holds the identical value; "
        "after settling (verif completion counter instead of sleeping) every live key is found again without reloading, for Set- and loader-originated entries with and without TTL, and with a failing secondary store the error handler is called and resident entries stay within MaxSize.",
   note="Admission probability 1 and a hand-off queue that never fills (the driver waits for the workers)."),
 "C13": dict(level="model_checking", ref="4 C13",
   technique="TLA+ spec SingleFlight.tla (Group.Do with pooled call records, loader outcomes ok/err/panic/Goexit) model-checked by TLC; TLC schedules replayed on the real Group through verif hook points; cache-level loading histories with failing/panicking loaders validated by TLC (SingleFlightTrace, StoreTrace)",
   text="TLC checks one-loader-per-key, shared results by invocation, no finished call left in the table, no record re-initialised while referenced and return of every call for 2-3 callers; the schedules are executed on the real Group (callers parked at hook points, scripted loader outcomes); "
        "at cache level concurrent loading Gets with slow loaders that succeed, fail, panic or Goexit are recorded and TLC validates non-overlapping loader runs per key, results taken from an overlapping load, admission with the loader's cost and TTL, nothing stored after a failure and no blocked shard afterwards.",
   note="Record identities and dups counters are read white-box at the hook points. The composition of the loading Get with the single-flight table (lookup, join or lead, lock, load and store, unlock, finish; Set/Delete/loss on the same key) is LoadFlight.tla: the repaired design satisfies Served/OneLoader/Quiet/Returns, the design before the repair D21 must violate Served; a late-join scenario holds the real leader between unlock and table removal."),
 "C16": dict(level="model_checking", ref="4 C16", technique=STORE_T,
   text="Traces of concurrent drivers carry Stats/Len/Range/EstimatedSize results; TLC compares them with its own ledger at quiescent points: hits+misses = Get calls, hits = Gets answered from the map, Len = resident entries, "
        "EstimatedSize = their cost, Range visits each resident unexpired key once with its current value and stops when told. The model-level part is the accounting invariant of Store.tla.",
   note="Range/Len calls overlapping other calls are only checked per visit."),
 "C18": dict(level="exploration", ref="4 C18",
   technique="TLA+ spec KeyMap.tla (arbitrary hash function: TLC checks every function from keys to hash values, shard by hash, map by full key, single-flight by full key) model-checked by TLC; key-family traces of the real cache on both toolchains validated by TLC (KeyTrace map-per-class observer)",
   text="TLC checks for every hash function (all collision patterns of 3 keys over 2 hash values and 2 shards) that reads return the map's value, a key lives only in its own shard and a load is never shared between different keys; "
        "the key-family driver builds equal keys along different code paths for ints of several widths, bool, string, pointer, array, struct, struct with StringKey, a non-injective StringKey and concurrent loading Gets of colliding keys, on go1.23.5 (raw-memory hasher) and go1.26.8 (maphash), and TLC validates every Get, Len and Range against the map per key value.",
   note="The type and value space is sampled; only the collision part is exhaustive (model level)."),
 "C19": dict(level="model_checking", ref="4 C19",
   technique="TLA+ spec RBMutex.tla (the shard lock at the grain of its atomic operations) model-checked by TLC (mutual exclusion, counter consistency, deadlock freedom; the three classic holes must violate) and bound by stepping the real RBMutex one hook at a time with every step compared by TLC (RBMutexTrace); TLA+ lock-domain table LockTable.tla; lock probes (TryLock / reader slots) recorded at every linearization hook of a running cache validated by TLC against the table; Go race detector over a mixed workload with hooks inert as supplementary oracle",
   text="The shard lock that the lock discipline rests on is specified at the grain of its atomic operations (RBMutex.tla): TLC checks mutual exclusion, counter consistency and deadlock freedom exhaustively for 2 readers, 1-2 writers and 2 slots, Apalache checks an inductive invariant implying mutual exclusion for 4 readers, 2 writers, 3 slots (6/3/4 thorough), and the real RBMutex is released one hook at a time with every step compared with the specification and the number of readers/writers inside checked on every line. The lock domains (shard RW lock for key/value/cost/deadline and the map, policy mutex for links/flags/policy cost/wheel/sketch, both for removal of a map slot by eviction or expiry) are stated as a table in LockTable.tla; while clients, maintenance and ticker run, every hook point probes whether the lock the table requires is held and TLC validates all probes; "
        "in addition the harness is built with -race and runs every API concurrently (SaveCache, Range, Close, loader, listener, hybrid store) with hooks inert, and any race report is a violation.",
   note="A specification observes actions, not memory accesses: the probes bind the locking discipline only at hook points; everything else rests on the race detector run, which is dynamic happens-before analysis and not a TLA+ result."),
 "C20": dict(level="model_checking", ref="4 C20", technique=STORE_T,
   text="TLC checks the wait configuration of Store.tla (concurrent waiters, writers, every position of the markers relative to batch boundaries) for the barrier invariant and, with deadlock checking on, for return of every call; "
        "the schedules are replayed on the real Store (two markers in one batch, wake-ups racing markers still queued); TLC validates that at every Wait return all write events whose calls had returned before the Wait call have been applied, and that no call hangs.",
   note="A hang is reported only if a second execution of the same schedule hangs again."),
})

EXTRA_TECHNIQUE = {
 "C04": "; the wheel slots as intrusive lists: TLA+ spec List.tla (pointer grain, two link sets) model-checked by TLC, TLC walks (ListSim) replayed into real List objects and every call's read-back state validated by TLC (ListTrace); the code's own ticker in real time (idle periods, busy store) validated by TLC against RealTick.tla; busy-tick scenario (policy lock busy at the instant the ticker fires) validated by StoreTrace",
 "C06": "; entry pool: TLA+ spec PoolWheel.tla (one entry object between the building and the application of its events) model-checked by TLC, the design before D22 must violate both invariants; bound by the pool histories validated by StoreTrace / HybridTrace",
 "C07": "; the region lists themselves: TLA+ spec List.tla (pointer grain: links, recorded size and count, region bits) model-checked by TLC, TLC walks (ListSim) replayed into real List objects and validated by TLC (ListTrace)",
 "C13": "; hook-free stress of Group.Do on few keys (records recycled between keys) with stamped calls and invocations validated by TLC against SfStress.tla",
 "C14": "; hybrid caches built through the public builders validated by TLC against HybridApi.tla",
 "C15": "; hybrid caches built through every path of the public builders (Hybrid, AdmProbability, Hybrid.Loading, Loading.Hybrid) filled beyond MaxSize and read again, counts validated by TLC against HybridApi.tla",
 "C20": "; for C20 also public-API programs with one write that displaces hundreds of entries followed by Wait (ApiTrace abulk rule)",
}


def main():
    props = [json.loads(l) for l in open(os.path.join(V, "properties.jsonl"))]
    hooks = subprocess.run(["git", "-C", "/repo", "log", "--format=%H %s", "--grep=^verif:"], stdout=subprocess.PIPE, text=True).stdout.strip().splitlines()
    checks = []
    for p in props:
        c = CHECKS.get(p["id"])
        if not c:
            continue
        checks.append({
            "property_id": p["id"],
            "quick_cmd": "./check %s quick" % p["id"],
            "thorough_cmd": "./check %s thorough" % p["id"],
            "evidence_file": "/verif/evidence/%s.json" % p["id"],
            "replay_cmd_template": "./check %s --replay {path}" % p["id"],
            "engine": "tlc+go-harness",
            "level_claimed": {"category": c["level"], "text": c["text"], "design_ref": "DESIGN.md section " + c["ref"]},
            "level_note": c["note"],
            "technique": c["technique"] + EXTRA_TECHNIQUE.get(p["id"], ""),
        })
    na = [{"property_id": p["id"], "reason": NA.get(p["id"], "check not built yet (work in progress; DESIGN.md section 7 gives the build order)")}
          for p in props if p["id"] not in CHECKS]
    m = {"version": 1, "setup_cmd": "./tools/setup.sh",
         "hooks": {"guard": "verif",
                   "enable": "go test -tags verif -overlay <overlay.json generated per run> ... (run from /repo; /verif/harness/* injected as *_test.go files)",
                   "baseline_off_cmd": "cd /repo && GOFLAGS=-mod=mod GOPROXY=off GOSUMDB=off go test -vet=off -count=1 -timeout 25m ./...",
                   "source_commits": [h.split()[0] for h in hooks], "add_only": True},
         "engines": [{"name": "tlc+go-harness", "path": "/verif/check", "serves_properties": sorted(CHECKS),
                      "kind_free_text": "TLA+ specifications in /verif/spec checked by TLC (exhaustive, simulation for behaviour export, trace validation); Go harness in /verif/harness injected into /repo packages by build overlay"}],
         "checks": checks,
         "notes": "Every check: exit 0 held, exit 1 with VIOLATION line, exit 2 machinery problem. VERIF_SEED seeds TLC simulation and every Go driver.",
         "not_applicable": na}
    json.dump(m, open(os.path.join(V, "MANIFEST.json"), "w"), indent=1)

NA = {}
if __name__ == "__main__":
    main()
