#!/usr/bin/env python3
"""Regenerates /verif/MANIFEST.json from the table below (keeps it valid at all times)."""
import json, os, subprocess
V = os.path.dirname(os.path.dirname(os.path.abspath(__file__)))

CHECKS = {
 "C04": dict(level="model_checking", ref="4 C04",
   technique="TLA+ spec TimerWheel.tla model-checked by TLC; TLC behaviours replayed into the real TimerWheel; recorded traces validated by TLC (TimerWheelTrace)",
   text="TLC enumerates every schedule/re-schedule/deschedule/advance sequence of a scaled-down five-level wheel and checks NeverEarly/NoOverdue; "
        "TLC-generated behaviours are executed on the real TimerWheel (scaled geometry, white-box) and a boundary-value driver runs the real geometry; "
        "every recorded step is validated by TLC against the specification and the two property invariants.",
   note="Exhaustive only for the scaled geometry and the configured offset/step sets; the real geometry is covered by trace validation of seeded boundary-value runs. Advance times are explicit (wheel level)."),
 "C17": dict(level="model_checking", ref="4 C17",
   technique="TLA+ spec Sketch.tla model-checked by TLC; traces of the real CountMinSketch (with the index tuples the code computed) validated by TLC (SketchTrace)",
   text="TLC checks NeverUnder/AdditionsBelowSample/InRange/NeverShrinks on a 16-word table with overlapping keys for all add/bulk-add sequences; "
        "the real sketch is driven with adversarial hashes over table sizes 16..2^20 (2^24 thorough), each step logged with the positions its own indexOf yields, and TLC re-executes the specification along every trace.",
   note="64-bit hashing is not evaluated in TLA+: positions come from the code (logged). Exhaustive only for the tiny table."),
}

def main():
    props = [json.loads(l) for l in open(os.path.join(V, "properties.jsonl"))]
    hooks = subprocess.run(["git", "-C", "/repo", "log", "--format=%H %s", "--grep=^verif:"], stdout=subprocess.PIPE, text=True).stdout.strip().splitlines()
    checks = []
    for p in props:
        c = CHECKS.get(p["id"])
        if not c:
            continue
        checks.append({
            "property_id": p["id"],
            "quick_cmd": "./check %s quick" % p["id"],
            "thorough_cmd": "./check %s thorough" % p["id"],
            "evidence_file": "/verif/evidence/%s.json" % p["id"],
            "replay_cmd_template": "./check %s --replay {path}" % p["id"],
            "engine": "tlc+go-harness",
            "level_claimed": {"category": c["level"], "text": c["text"], "design_ref": "DESIGN.md section " + c["ref"]},
            "level_note": c["note"],
            "technique": c["technique"],
        })
    na = [{"property_id": p["id"], "reason": NA.get(p["id"], "check not built yet (work in progress; DESIGN.md section 7 gives the build order)")}
          for p in props if p["id"] not in CHECKS]
    m = {"version": 1, "setup_cmd": "./tools/setup.sh",
         "hooks": {"guard": "verif",
                   "enable": "go test -tags verif -overlay <overlay.json generated per run> ... (run from /repo; /verif/harness/* injected as *_test.go files)",
                   "baseline_off_cmd": "cd /repo && GOFLAGS=-mod=mod GOPROXY=off GOSUMDB=off go test -vet=off -count=1 -timeout 25m ./...",
                   "source_commits": [h.split()[0] for h in hooks], "add_only": True},
         "engines": [{"name": "tlc+go-harness", "path": "/verif/check", "serves_properties": sorted(CHECKS),
                      "kind_free_text": "TLA+ specifications in /verif/spec checked by TLC (exhaustive, simulation for behaviour export, trace validation); Go harness in /verif/harness injected into /repo packages by build overlay"}],
         "checks": checks,
         "notes": "Every check: exit 0 held, exit 1 with VIOLATION line, exit 2 machinery problem. VERIF_SEED seeds TLC simulation and every Go driver.",
         "not_applicable": na}
    json.dump(m, open(os.path.join(V, "MANIFEST.json"), "w"), indent=1)

NA = {}
if __name__ == "__main__":
    main()
