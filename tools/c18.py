"""C18 - keys that compare equal address the same entry; different keys never alias."""
import json, os, sys, time
import vlib, storelib

KF = {}


def classify(kind, tid, line):
    # pre-1.24 raw-memory hasher: struct keys with padding bytes are outside the claimed class
    if kind.endswith("_struct_with_padding_bytes"):
        return "D18-padding-bytes-hashed-before-go1.24"
    return None


def run(tier, work):
    t0 = time.time()
    thorough = tier == "thorough"
    if "--replay" in sys.argv:
        path = os.path.abspath(sys.argv[sys.argv.index("--replay") + 1])
        res = storelib.validate(work, path, "replay", module="KeyTrace", cfg="KeyTrace.cfg")
        bad = [x for x in res["viol"] if not x[3].endswith("_struct_with_padding_bytes")]
        for x in bad:
            print("VIOLATION property=C18 replay=%s\n  detail: %s at line %s" % (path, x[3], x[2]))
        return 1 if bad else 0
    v = vlib.Verdict("C18", work)
    mc = storelib.tlc_mc(work, "KeyMapMC.cfg", module="KeyMap", tag="keymap")
    mc2 = vlib.run_tlc(work, "KeyMap", "KeyMapMC_byhash.cfg", workers=4, tag="keymap_byhash", timeout=600)
    byhash_violates = bool(mc2.violation)
    traces = gets = lines = 0
    samples = []
    per = {}
    for go in ("go", "go1.26.8"):
        binp = vlib.go_build_test(work, ".", go=go)
        out = work.sub("out_keys_" + go.replace(".", ""))
        rc, o = vlib.run_test_bin(binp, "^TestVerif_C18Keys$", env={"VERIF_OUT": out, "VERIF_SEED": vlib.seed()}, timeout=600)
        if rc != 0:
            if vlib.code_panic(o):
                raise vlib.CodePanic(vlib.code_panic(o), o)
            raise vlib.MachineryError("key driver (%s) failed rc=%s:\n%s" % (go, rc, (o or "")[-2000:]))
        tf = os.path.join(out, "keys.ndjson")
        res = storelib.validate(work, tf, "keys_" + go.replace(".", ""), module="KeyTrace", cfg="KeyTrace.cfg")
        # the replay file of a violation is the whole key trace of that toolchain
        seen = set()
        for (prop, tid, line, kind) in res["viol"]:
            if (tid, kind) in seen:
                continue
            seen.add((tid, kind))
            v.report("C18 (%s): %s for key type %s at line %s" % (go, kind, tid, line), tf, sig=classify(kind, tid, line))
        traces += res["traces"]
        gets += res["gets"]
        lines += res["lines"]
        per[go] = {"key_families": res["traces"], "gets": res["gets"]}
        if not samples:
            samples = vlib.read_ndjson_head(tf, 8)
    # keys of entries restored by LoadCache address them (the loader must place each entry in the shard its hash selects)
    import persistcheck
    pres, _ = persistcheck.trace_part(work, v, "C18", 60 if thorough else 16, 0, {})
    traces += pres["traces"]
    cov = {"states": mc.distinct, "transitions": mc.generated, "traces_validated_against_impl": traces,
           "evaluations": gets, "distinct_nontrivial": gets,
           "rule": "one evaluation = one Get through a key of a known class (value identity assigned by the driver) after Sets/Deletes through equal keys built along other code paths, for ints of several widths, bool, string, pointer, array, struct, struct with StringKey, a non-injective StringKey (forced hash collisions) and concurrent loading Gets of colliding keys; run on go1.23.5 (raw-memory hasher) and go1.26.8 (maphash.Comparable)",
           "per_toolchain": per, "events_validated": lines, "hash_keyed_singleflight_variant_violates_in_model": byhash_violates,
           "model_checking_runs": [{"cfg": "KeyMapMC.cfg", "states": mc.distinct, "transitions": mc.generated}],
           "samples": samples, "exhaustive": False,
           "known_findings_seen": {k: c for k, (w_, c) in v.known.items()}}
    rc = v.finish()
    vlib.write_evidence("C18", tier, "exploration", cov,
                        ["the type and value space is sampled (fixed key families), the collision part is model-checked: KeyMap.tla is checked for every hash function from 3 keys to 2 hash values",
                         "both hashers are exercised by building the harness with go (1.23.5) and go1.26.8",
                         "struct keys with padding bytes are outside the class claimed for toolchains before Go 1.24 (reported as known finding when observed)"],
                        time.time() - t0, len(v.violations))
    return rc
