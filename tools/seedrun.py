#!/usr/bin/env python3
"""Run registered checks against seeded changes: for each <seed dir> (patch.diff inside) apply it to
/repo, run the listed checks (quick), record exit codes and first VIOLATION lines, undo it.
usage: seedrun.py <out.json> <seeddir>:<C01,C02,...> ...      (run from a /verif tree)"""
import json, os, subprocess, sys, time

def sh(cmd, **kw):
    return subprocess.run(cmd, shell=True, stdout=subprocess.PIPE, stderr=subprocess.STDOUT, text=True, **kw)

REPO = os.environ.get("VERIF_REPO", "/repo")


def main():
    out = sys.argv[1]
    results = json.load(open(out)) if os.path.exists(out) else {}
    for spec in sys.argv[2:]:
        sd, checks = spec.split(":")
        patch = os.path.join(sd, "patch.diff")
        st = sh("git -C %s status --porcelain --untracked-files=no" % REPO).stdout.strip()
        if st:
            print("repo not clean, abort:", st); sys.exit(2)
        a = sh("git -C %s apply %s" % (REPO, patch))
        if a.returncode != 0:
            a = sh("git -C %s apply -3 %s && git -C %s reset -q" % (REPO, patch, REPO))
        if a.returncode != 0:
            results[sd] = {"error": "patch does not apply: " + a.stdout[-300:]}
            continue
        r = {}
        try:
            for c in checks.split(","):
                t = time.time()
                p = sh("./check %s quick" % c, env=dict(os.environ, VERIF_SEED=os.environ.get("VERIF_SEED", "1")))
                lines = [l for l in p.stdout.splitlines() if l.startswith("VIOLATION") or l.startswith("  detail") or l.startswith("MACHINERY") or l.startswith("KNOWN")]
                r[c] = {"rc": p.returncode, "wall_s": round(time.time() - t, 1), "lines": lines[:8]}
                print(sd, c, "rc=%d" % p.returncode, lines[:2], flush=True)
        finally:
            sh("git -C %s checkout -- ." % REPO)
        results[sd] = r
        json.dump(results, open(out, "w"), indent=1)
    json.dump(results, open(out, "w"), indent=1)

main()
