"""C11 - SaveCache / LoadCache round trip restores the cache faithfully."""
import persistcheck


def run(tier, work):
    return persistcheck.run("C11", tier, work, [
        "Persist.tla models the stream at block level (metadata, window, protected, probation, end); PersistMC enumerates all small caches x targets x elapsed times x block faults",
        "elapsed time between save and load is produced by moving the saved cache's clock origin back; deadlines within 100 ms of the load time are avoided (time is logged in 2^20 ns units)",
        "int keys and values; streams of one block per region (4 MiB blocks) - multi-block regions only in the model"])
