#!/usr/bin/env python3
"""runall.py <quick|thorough> [ids...]: run the registered checks one after the other on the unchanged tree and
print exit code, wall time and any VIOLATION / KNOWN-FINDING / MACHINERY line (used before committing evidence)."""
import json, os, subprocess, sys, time
V = os.path.dirname(os.path.dirname(os.path.abspath(__file__)))
tier = sys.argv[1] if len(sys.argv) > 1 else "quick"
ids = sys.argv[2:] or ["C%02d" % i for i in range(1, 21)]
bad = 0
for i in ids:
    t = time.time()
    p = subprocess.run(["./check", i, tier], cwd=V, stdout=subprocess.PIPE, stderr=subprocess.STDOUT, text=True)
    lines = [l[:260] for l in p.stdout.splitlines() if l.startswith(("VIOLATION", "  detail", "MACHINERY", "KNOWN", "note"))]
    print("%s %s rc=%d %.0fs %s" % (i, tier, p.returncode, time.time() - t, lines[:6]), flush=True)
    if p.returncode != 0:
        bad += 1
        print(p.stdout[-1500:], flush=True)
sys.exit(1 if bad else 0)
