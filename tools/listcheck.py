"""The intrusive list (internal/list.go) as part of C07 (region lists) and C04 (wheel slots): List.tla
model-checked at pointer grain; TLC walks of ListSim executed on real List objects sharing entries through both
link sets, plus seeded random histories; every call's read-back state validated by TLC (ListTrace)."""
import json, os
import vlib

WHEEL_LISTS = (4, 5)


def stage(work, v, pid, thorough):
    mc = vlib.run_tlc(work, "ListMC", "ListMC_thorough.cfg" if thorough else "ListMC.cfg", workers=8, timeout=3000, tag="listmc")
    vlib.tlc_must_pass(mc, "ListMC")
    if mc.violation:
        raise vlib.MachineryError("specification List violates %s - spec error" % mc.violation)
    simdir = work.sub("listsim")
    sim = vlib.run_tlc(work, "ListSim", "ListSim.cfg", workers=1, tag="listsim",
                       mode_args=["-simulate", "num=%d" % (400 if thorough else 60), "-depth", "82", "-seed", str(vlib.seed())],
                       env={"VERIF_SIMDIR": simdir}, timeout=900)
    vlib.tlc_must_pass(sim, "ListSim")
    nbeh = len([f for f in os.listdir(simdir) if f.endswith(".ndjson")])
    if nbeh == 0:
        raise vlib.MachineryError("no list behaviours exported by TLC")
    binp = vlib.go_build_test(work, "./internal/")
    out = work.sub("listtraces")
    rc, o = vlib.run_test_bin(binp, "^TestVerif_List(Replay|Driver)$", timeout=600,
                              env={"VERIF_OUT": out, "VERIF_IN": simdir, "VERIF_N": 150 if thorough else 30, "VERIF_SEED": vlib.seed()})
    if rc != 0:
        if vlib.code_panic(o):
            raise vlib.CodePanic(vlib.code_panic(o), o)
        raise vlib.MachineryError("list harness failed rc=%s:\n%s" % (rc, (o or "")[-3000:]))
    tot = {"traces": 0, "lines": 0, "div": 0, "skipped": 0}
    for tag in ("replay", "driver"):
        tf = os.path.join(out, "list_%s.ndjson" % tag)
        res = work.path("list_result_%s.json" % tag)
        r = vlib.run_tlc(work, "ListTrace", "ListTrace.cfg", workers=1, tag="listtrace_" + tag,
                         env={"VERIF_TRACE": tf, "VERIF_RESULT": res}, timeout=2400)
        if r.error or not os.path.exists(res):
            raise vlib.MachineryError("list trace validation (%s) failed: %s" % (tag, r.error or r.out[-1500:]))
        j = json.load(open(res))
        if j["consumed"] != j["lines"]:
            raise vlib.MachineryError("list trace %s not fully consumed (%s of %s)" % (tag, j["consumed"], j["lines"]))
        recs = vlib.read_ndjson(tf)
        tot["traces"] += sum(1 for x in recs if x["op"] == "new")
        tot["lines"] += len(recs)
        tot["div"] += j["div"]
        if j["div"]:
            print("note: %d list step(s) where the real list differs from List.tla (first: %s) - order inside a list is "
                  "not part of %s; invariants of the logged state are still judged" % (j["div"], j["firstdiv"], pid))
        seen = set()
        for (tid, line, lst, kind) in j["viol"]:
            wheel = lst in WHEEL_LISTS
            if (pid == "C04") != wheel and kind != "list_operation_panicked":
                continue   # region lists are judged by C07, wheel slots by C04
            if (tid, kind) in seen:
                continue
            seen.add((tid, kind))
            seg = []; cur = None
            for x in recs:
                if x["op"] == "new":
                    cur = x["id"]
                if cur == tid:
                    seg.append(x)
            rp = work.path("viol_list_%s_%s_%s.ndjson" % (tag, tid, kind))
            vlib.write_ndjson(rp, seg)
            v.report("list %s: %s (list %s) in history %s at line %s" % (tag, kind, lst, tid, line), rp)
    sm = json.load(open(os.path.join(out, "list_replay.summary.json")))
    tot["skipped"] = sm.get("skipped", 0)
    if sm.get("steps", 0) == 0:
        raise vlib.MachineryError("list replay executed no step")
    return {"list_spec_states": mc.distinct, "list_spec_transitions": mc.generated, "list_behaviours_replayed": nbeh,
            "list_histories_validated": tot["traces"], "list_trace_events": tot["lines"], "list_model_divergences": tot["div"],
            "list_replay_steps_refused_by_code": tot["skipped"]}
