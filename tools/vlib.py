"""Common machinery for the /verif checks: scratch dirs, TLC runs, Go harness runs,
evidence files, known findings, verdict plumbing.

Exit codes of a check: 0 held, 1 violation (VIOLATION line printed), 2 machinery problem.
"""
import json, os, re, shutil, subprocess, sys, time, hashlib, glob

VERIF = os.path.dirname(os.path.dirname(os.path.abspath(__file__)))
REPO = os.environ.get("VERIF_REPO", "/repo")
SPEC = os.path.join(VERIF, "spec")
HARNESS = os.path.join(VERIF, "harness")
TLA_CP = "/opt/veriftools/tla/tla2tools.jar:/opt/veriftools/tla/CommunityModules-deps.jar"

GOENV = {"GOFLAGS": "-mod=mod", "GOPROXY": "off", "GOSUMDB": "off", "GOTOOLCHAIN": "local"}


class MachineryError(Exception):
    pass


def seed():
    try:
        return int(os.environ.get("VERIF_SEED", "1"))
    except ValueError:
        return 1


class Work:
    """Per-run scratch directory /verif/work/<id>.<pid>; removed at the end unless kept."""

    def __init__(self, pid_name):
        self.dir = os.path.join(VERIF, "work", "%s.%d" % (pid_name, os.getpid()))
        shutil.rmtree(self.dir, ignore_errors=True)
        os.makedirs(self.dir)
        self.keep = bool(os.environ.get("VERIF_KEEP"))

    def path(self, *p):
        q = os.path.join(self.dir, *p)
        os.makedirs(os.path.dirname(q), exist_ok=True)
        return q

    def sub(self, name):
        q = os.path.join(self.dir, name)
        os.makedirs(q, exist_ok=True)
        return q

    def close(self):
        if not self.keep:
            shutil.rmtree(self.dir, ignore_errors=True)


# ---------------------------------------------------------------------------------------------
# TLC

class TlcResult:
    def __init__(self):
        self.ok = False            # finished without violation/error
        self.violation = None      # name of violated invariant / property / "deadlock" / "postcondition"
        self.error = None          # machinery-level error text
        self.generated = 0
        self.distinct = 0
        self.depth = 0
        self.out = ""
        self.wall = 0.0
        self.coverage = {}


def _stage_specs(dst):
    for f in glob.glob(os.path.join(SPEC, "*.tla")) + glob.glob(os.path.join(SPEC, "*.cfg")):
        shutil.copy(f, dst)


def run_tlc(work, module, cfg, workers="auto", mode_args=None, env=None, timeout=1800,
            deadlock=False, java_opts=None, tag=None, coverage=False, extra_files=None):
    """Run TLC on spec/<module>.tla with spec/<cfg> in a scratch copy. Returns TlcResult."""
    tag = tag or (module + "_" + os.path.splitext(os.path.basename(cfg))[0])
    d = work.sub("tlc_" + tag)
    _stage_specs(d)
    for name, content in (extra_files or {}).items():
        with open(os.path.join(d, name), "w") as fh:
            fh.write(content)
    meta = os.path.join(d, "meta")
    cmd = ["java", "-XX:+UseParallelGC", "-Xss64m"]
    if java_opts:
        cmd += java_opts
    cmd += ["-cp", TLA_CP, "tlc2.TLC", "-metadir", meta, "-config", cfg, "-workers", str(workers),
            "-noGenerateSpecTE"]
    if not deadlock:
        cmd += ["-deadlock"]  # -deadlock disables deadlock checking
    if coverage:
        cmd += ["-coverage", "1"]
    if mode_args:
        cmd += mode_args
    cmd += [module]
    e = dict(os.environ)
    if env:
        e.update({k: str(v) for k, v in env.items()})
    r = TlcResult()
    t0 = time.time()
    try:
        p = subprocess.run(cmd, cwd=d, env=e, stdout=subprocess.PIPE, stderr=subprocess.STDOUT,
                           timeout=timeout, text=True, errors="replace")
        r.out = p.stdout
        rc = p.returncode
    except subprocess.TimeoutExpired as ex:
        r.out = (ex.stdout or b"").decode("utf-8", "replace") if isinstance(ex.stdout, bytes) else (ex.stdout or "")
        r.error = "TLC timeout after %ds" % timeout
        r.wall = time.time() - t0
        return r
    r.wall = time.time() - t0
    out = r.out
    m = re.findall(r"(\d+) states generated, (\d+) distinct states found", out)
    if m:
        r.generated, r.distinct = int(m[-1][0]), int(m[-1][1])
    m = re.search(r"depth of the complete state graph search is (\d+)", out)
    if m:
        r.depth = int(m.group(1))
    if "Model checking completed. No error has been found." in out or \
       ("Finished in" in out and rc == 0):
        r.ok = True
    m = re.search(r"Invariant (\S+) is violated", out)
    if m:
        r.violation = m.group(1)
        r.ok = False
    elif "Temporal properties were violated" in out:
        r.violation = "temporal"
        r.ok = False
    elif re.search(r"Action property (\S+) is violated", out):
        r.violation = re.search(r"Action property (\S+) is violated", out).group(1)
        r.ok = False
    elif "Deadlock reached" in out:
        r.violation = "deadlock"
        r.ok = False
    elif re.search(r"[Pp]ost-?condition", out) and ("violated" in out or "false" in out.lower()) and rc != 0:
        r.violation = "postcondition"
        r.ok = False
    if not r.ok and r.violation is None:
        r.error = "TLC failed (rc=%s): %s" % (rc, out[-1500:])
    if coverage:
        for mm in re.finditer(r"<(\w+) line \d+, col \d+ to line \d+, col \d+ of module (\w+)>: (\d+):(\d+)", out):
            r.coverage[mm.group(1)] = r.coverage.get(mm.group(1), 0) + int(mm.group(4))
    r.dir = d
    return r


def tlc_must_pass(r, what):
    if r.error:
        raise MachineryError("%s: %s" % (what, r.error))


# ---------------------------------------------------------------------------------------------
# Go harness

def overlay(work, toolchain_go="go"):
    """Write an overlay mapping harness sources into /repo packages as *_test.go files."""
    rep = {}
    for sub, pkgdir in (("internal", os.path.join(REPO, "internal")), ("root", REPO)):
        for f in sorted(glob.glob(os.path.join(HARNESS, sub, "*.go"))):
            base = os.path.basename(f)[:-3]
            if not base.endswith("_test"):
                base += "_test"
            rep[os.path.join(pkgdir, "zz_verif_" + base + ".go")] = f
    p = work.path("overlay.json")
    with open(p, "w") as fh:
        json.dump({"Replace": rep}, fh)
    return p


def go_env(extra=None):
    e = dict(os.environ)
    e.update(GOENV)
    if extra:
        e.update({k: str(v) for k, v in extra.items()})
    return e


def go_build_test(work, pkg="./internal/", go="go", race=False, tags="verif"):
    """Compile the test binary of a /repo package with the harness injected. Returns binary path."""
    ov = overlay(work)
    name = "t_" + re.sub(r"\W", "", pkg) + ("_race" if race else "") + "_" + go.replace(".", "") + ".test"
    out = work.path(name)
    cmd = [go, "test", "-c", "-vet=off", "-tags", tags, "-overlay", ov, "-o", out]
    if race:
        cmd.append("-race")
    cmd.append(pkg)
    p = subprocess.run(cmd, cwd=REPO, env=go_env(), stdout=subprocess.PIPE, stderr=subprocess.STDOUT, text=True)
    if p.returncode != 0 or not os.path.exists(out):
        raise MachineryError("go test -c failed:\n" + p.stdout[-4000:])
    return out


def run_test_bin(binpath, run, env=None, timeout=900, cwd=None):
    """Run a compiled test binary. Returns (rc, output). rc None on timeout."""
    cmd = [binpath, "-test.run", run, "-test.count=1", "-test.timeout", "%ds" % (timeout + 30), "-test.v"]
    try:
        p = subprocess.run(cmd, cwd=cwd or os.path.dirname(binpath), env=go_env(env), stdout=subprocess.PIPE,
                           stderr=subprocess.STDOUT, timeout=timeout + 60, text=True, errors="replace")
        return p.returncode, p.stdout
    except subprocess.TimeoutExpired as ex:
        o = ex.stdout
        if isinstance(o, bytes):
            o = o.decode("utf-8", "replace")
        return None, o or ""


# ---------------------------------------------------------------------------------------------
# Evidence, findings, verdicts

def write_evidence(pid, tier, level, coverage, assumptions, wall, violations=0):
    ev = {"property_id": pid, "tier": tier, "seed": seed(), "level": level, "coverage": coverage,
          "assumptions": assumptions, "wall_s": round(wall, 2), "violations": violations}
    # evidence describes runs against /repo itself; a run against another tree (seeded changes applied to a
    # scratch worktree, VERIF_REPO) must not overwrite it
    evdir = os.path.join(VERIF, "evidence") if REPO == "/repo" else os.path.join(VERIF, "work", "evidence_other_tree")
    os.makedirs(evdir, exist_ok=True)
    p = os.path.join(evdir, pid + ".json")
    tmp = p + ".tmp%d" % os.getpid()
    with open(tmp, "w") as fh:
        json.dump(ev, fh, indent=1, default=str)
    os.replace(tmp, p)


def known_findings():
    p = os.path.join(VERIF, "known_findings.json")
    if not os.path.exists(p):
        return []
    with open(p) as fh:
        return json.load(fh).get("findings", [])


def read_ndjson(path):
    out = []
    with open(path) as fh:
        for line in fh:
            line = line.strip()
            if line:
                out.append(json.loads(line))
    return out


def read_ndjson_head(path, n):
    out = []
    with open(path) as fh:
        for line in fh:
            line = line.strip()
            if line:
                out.append(json.loads(line))
            if len(out) >= n:
                break
    return out


def write_ndjson(path, recs):
    with open(path, "w") as fh:
        for r in recs:
            fh.write(json.dumps(r, separators=(",", ":")) + "\n")


def digest(obj):
    return hashlib.sha1(json.dumps(obj, sort_keys=True, default=str).encode()).hexdigest()[:16]


# ---------------------------------------------------------------------------------------------
# Apalache (inductive invariants over unbounded integers)

def run_apalache(work, module, init, inv, length, cinit=None, timeout=300, tag=None, extra=()):
    """apalache-mc check --init=<init> --inv=<inv> --length=<length>; returns 'NoError' / 'Error'."""
    d = work.sub("apalache_" + (tag or "%s_%s_%d" % (init, inv, length)))
    shutil.copy(os.path.join(VERIF, "spec", module + ".tla"), d)
    for m in extra:
        shutil.copy(os.path.join(VERIF, "spec", m + ".tla"), d)
    cmd = ["apalache-mc", "check", "--init=" + init, "--inv=" + inv, "--length=%d" % length,
           "--out-dir=" + os.path.join(d, "out"), "--run-dir=" + os.path.join(d, "run")]
    if cinit:
        cmd.append("--cinit=" + cinit)
    cmd.append(module + ".tla")
    try:
        p = subprocess.run(cmd, cwd=d, stdout=subprocess.PIPE, stderr=subprocess.STDOUT, timeout=timeout, text=True)
    except subprocess.TimeoutExpired:
        raise MachineryError("apalache timed out on %s %s/%s" % (module, init, inv))
    m = re.search(r"The outcome is: (\w+)", p.stdout)
    if not m:
        raise MachineryError("apalache gave no outcome for %s %s/%s: %s" % (module, init, inv, p.stdout[-400:]))
    return m.group(1)


class CodePanic(Exception):
    """The code under test panicked while a driver ran it (stack top in the repository, not in the harness)."""

    def __init__(self, what, output):
        Exception.__init__(self, what)
        self.what = what
        self.output = output


def code_panic(output):
    """If output shows a Go panic / fatal error raised in repository code (first frame that is neither the runtime
    nor a harness file lies in the repository), return a one-line summary, else None."""
    if not output:
        return None
    m = re.search(r"^(panic: .*|fatal error: .*)$", output, re.M)
    if not m:
        return None
    tail = output[m.start():]
    frames = re.findall(r"^\t(/\S+\.go):(\d+)", tail, re.M)
    for (f, ln) in frames:
        if "/src/runtime/" in f or "/src/testing/" in f or "/src/sync/" in f:
            continue
        if f.startswith(os.path.join(VERIF, "harness")):
            return None      # raised by the harness itself
        if f.startswith(REPO.rstrip("/") + "/"):
            return "%s at %s:%s" % (m.group(1)[:200], f[len(REPO.rstrip("/")) + 1:], ln)
        return None
    return None


class Verdict:
    """Collects violations / known findings for one check run."""

    def __init__(self, pid, work):
        self.pid = pid
        self.work = work
        self.violations = []      # (what, replay path)
        self.known = {}           # finding id -> (what, count)
        self.kf = [f for f in known_findings() if f.get("property") == pid and f.get("status") == "open"]

    def report(self, what, replay_src=None, sig=None):
        """sig: finding id computed by the check's own classifier (or None)."""
        if sig is not None:
            for f in self.kf:
                if f["id"] == sig:
                    w, c = self.known.get(sig, (f["what"], 0))
                    self.known[sig] = (w, c + 1)
                    return
        keepdir = os.path.join(VERIF, "work", "violations")
        os.makedirs(keepdir, exist_ok=True)
        dst = os.path.join(keepdir, "%s_%d_%d.ndjson" % (self.pid, os.getpid(), len(self.violations)))
        if replay_src and os.path.exists(replay_src):
            shutil.copy(replay_src, dst)
        else:
            with open(dst, "w") as fh:
                fh.write(json.dumps({"what": what}) + "\n")
        self.violations.append((what, dst))

    def finish(self):
        for sig, (w, c) in sorted(self.known.items()):
            print("KNOWN-FINDING: property=%s %s [%s, %d occurrence(s)]" % (self.pid, w, sig, c))
        for what, path in self.violations[:20]:
            print("VIOLATION property=%s replay=%s" % (self.pid, path))
            print("  detail: %s" % what)
        return 1 if self.violations else 0


def main_wrapper(pid, fn):
    """fn(tier, work) -> exit code. Handles scratch, machinery errors, timing."""
    tier = "quick"
    args = sys.argv[1:]
    for a in args:
        if a in ("quick", "thorough"):
            tier = a
    tier = os.environ.get("VERIF_TIER", tier) if tier == "quick" and "quick" not in args else tier
    work = Work(pid)
    rc = 2
    try:
        rc = fn(tier, work)
    except CodePanic as ex:
        os.makedirs(os.path.join(VERIF, "work", "violations"), exist_ok=True)
        rp = os.path.join(VERIF, "work", "violations", "%s_%d_panic.txt" % (pid, os.getpid()))
        with open(rp, "w") as fh:
            fh.write(ex.output[-200000:])
        print("VIOLATION property=%s replay=%s" % (pid, rp))
        print("  detail: %s: the code under test panicked: %s" % (pid, ex.what))
        rc = 1
    except MachineryError as ex:
        print("MACHINERY-ERROR property=%s: %s" % (pid, ex))
        rc = 2
    finally:
        work.close()
    sys.exit(rc)
