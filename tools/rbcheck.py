"""The shard lock (internal/rbmutex.go) as part of C01 and C19: RBMutex.tla model-checked, the real RBMutex
driven one atomic operation at a time through its hook points and every step compared with the
specification by TLC (RBMutexTrace); the verdict is the lock's contract on the harness's own view of who
is inside."""
import os
import vlib, storelib

CFG = ("SPECIFICATION TraceSpec\nCONSTANTS\n  Readers = {1, 2, 3}\n  Writers = {4, 5}\n  NS = %d\n"
       "  Recheck = TRUE\n  Revoke = TRUE\n  Rollback = TRUE\n")


def model_part(work, thorough):
    runs = []
    cfgs = ["RBMutexMC.cfg"] if thorough else ["RBMutexMC_small.cfg"]
    states = trans = 0
    for cfg in cfgs:
        r = storelib.tlc_mc(work, cfg, module="RBMutex", deadlock=True, tag=cfg[:-4])
        states += r.distinct
        trans += r.generated
        runs.append({"cfg": cfg, "states": r.distinct, "transitions": r.generated, "wall_s": round(r.wall, 1)})
    if thorough:
        r = storelib.tlc_mc(work, "RBMutexMC_live.cfg", module="RBMutex", tag="rb_live")
        runs.append({"cfg": "RBMutexMC_live.cfg (WriterEnters under weak fairness)", "states": r.distinct, "transitions": r.generated,
                     "wall_s": round(r.wall, 1)})
    # non-vacuity: the designs without the second rbias load / without waiting for the slots / without the
    # counter roll-back must violate
    for cfg, inv in ([("RBMutexMC_noRecheck.cfg", "Mutex"), ("RBMutexMC_noRevoke.cfg", "Mutex"), ("RBMutexMC_noRollback.cfg", "Counts")]
                     if thorough else [("RBMutexMC_noRecheck.cfg", "Mutex")]):
        r = vlib.run_tlc(work, "RBMutex", cfg, workers=4, timeout=600, tag=cfg[:-4])
        if r.violation != inv:
            raise vlib.MachineryError("RBMutex.tla %s: expected a violation of %s, got %r" % (cfg, inv, r.violation))
        runs.append({"cfg": cfg, "violates": inv})
    # inductive invariant with Apalache (ranges over all states satisfying IndInv, 4 readers, 2 writers, 3 slots -
    # more than TLC can enumerate): Init => IndInv, IndInv /\ Next => IndInv', IndInv => Mutex
    # thorough: the same obligations for 6 readers, 3 writers, 4 slots (RBMutexIndBig.tla)
    for mod in (["RBMutexInd", "RBMutexIndBig"] if thorough else ["RBMutexInd"]):
        for (init, inv, length) in (("Init", "IndInv", 0), ("IndInit", "IndInv", 1), ("IndInit", "Mutex", 0)):
            o = vlib.run_apalache(work, mod, init, inv, length, cinit="CInit", timeout=1800,
                                  tag="%s_%s_%s_%d" % (mod, init, inv, length), extra=["RBMutex"])
            runs.append({"apalache": mod + ".tla", "init": init, "inv": inv, "length": length, "outcome": o})
            if o != "NoError":
                raise vlib.MachineryError("%s.tla: %s => %s (length %d) is not valid: %s" % (mod, init, inv, length, o))
    return states, trans, runs


def trace_part(work, v, pid, thorough):
    out = storelib.run_driver(work, "TestVerif_RBMutex", "rbmutex", env={"VERIF_N": 400 if thorough else 60, "VERIF_SEED": vlib.seed()},
                              timeout=1800)
    tot = {"lines": 0, "steps": 0, "div": 0, "traces": 0}
    for ns in (1, 2, 4):
        tf = os.path.join(out, "rbmutex_ns%d.ndjson" % ns)
        res = storelib.validate(work, tf, "rb%d" % ns, module="RBMutexTrace", cfg="RBMutexTrace_gen.cfg",
                                extra_files={"RBMutexTrace_gen.cfg": CFG % ns}, timeout=1800)
        for k in tot:
            tot[k] += res[k]
        # the observer files everything under C19; the same finding breaks C01 (readers see a map under update)
        res["viol"] = [[pid, x[1], x[2], x[3]] for x in res["viol"]]
        storelib.report(v, work, pid, tf, res)
    if tot["div"]:
        print("note: %d lock histories leave RBMutex.tla (model divergence, not a verdict)" % tot["div"])
    return tot, vlib.read_ndjson_head(os.path.join(out, "rbmutex_ns2.ndjson"), 6)


def run(work, v, pid, thorough, with_model=True):
    cov = {}
    if with_model:
        st, tr, runs = model_part(work, thorough)
        cov.update({"rbmutex_states": st, "rbmutex_transitions": tr, "rbmutex_model_checking_runs": runs, "_states": st, "_trans": tr})
    tot, sample = trace_part(work, v, pid, thorough)
    cov.update({"rbmutex_histories": tot["traces"], "rbmutex_atomic_steps_compared": tot["steps"],
                "rbmutex_histories_leaving_the_spec": tot["div"], "rbmutex_sample": sample, "_traces": tot["traces"]})
    return cov
