"""Shared runner of C14 / C15: hybrid cache driver with a scripted secondary store, validated by TLC (HybridTrace)."""
import json, os, sys, time
import vlib, storelib

KF = {
    "older_secondary_copy_served_after_newer_set": "D14c-secondary-copy-not-invalidated-by-set",
    "entry_evicted_without_identical_copy_in_secondary": "D14b-updated-promoted-entry-not-written-back",
    "slot_removed_by_worker_after_entry_was_updated_since_its_copy": "D14d-worker-removes-entry-updated-since-copy",
}


def builders_stage(work, v, pid):
    """Hybrid caches built through the public builders (every path of builder.go), judged by HybridApi.tla."""
    out = storelib.run_driver(work, "TestVerif_HybridBuilders", "hybridapi", timeout=600, pkg=".")
    tf = os.path.join(out, "hybridapi.ndjson")
    res = storelib.validate(work, tf, "hybridapi", module="HybridApi", cfg="HybridApi.cfg")
    seen = set()
    for (prop, path, line, kind) in res["viol"]:
        if prop == pid and (path, kind) not in seen:
            seen.add((path, kind))
            v.report("%s: %s for a cache built as %s (line %s)" % (pid, kind, path, line), tf)
    return {"public_builder_hybrid_caches_judged": res["lines"]}


def run(pid, tier, work, assumptions):
    t0 = time.time()
    thorough = tier == "thorough"
    if "--replay" in sys.argv:
        path = os.path.abspath(sys.argv[sys.argv.index("--replay") + 1])
        res = storelib.validate(work, path, "replay", module="HybridTrace", cfg="HybridTrace.cfg")
        bad = [x for x in res["viol"] if x[0] == pid]
        for x in bad:
            print("VIOLATION property=%s replay=%s\n  detail: %s at line %s" % (pid, path, x[3], x[2]))
        return 1 if bad else 0
    v = vlib.Verdict(pid, work)
    mc = storelib.tlc_mc(work, "HybridMC.cfg", module="Hybrid", tag="hmc", timeout=2400)
    mcl = storelib.tlc_mc(work, "HybridMC_loading.cfg", module="Hybrid", tag="hmcl", timeout=2400)   # with the loading Get
    out = storelib.run_driver(work, "TestVerif_Hybrid", "hybrid", env={"VERIF_N": 1500 if thorough else 150}, timeout=2400)
    tf = os.path.join(out, "hybrid.ndjson")
    res = storelib.validate(work, tf, "hybrid", module="HybridTrace", cfg="HybridTrace.cfg", timeout=3000)
    others = {}
    storelib.report(v, work, pid, tf, res, lambda k, t, l: KF.get(k), others)
    cov = {"states": mc.distinct + mcl.distinct, "transitions": mc.generated + mcl.generated, "traces_validated_against_impl": res["traces"],
           "evaluations": res["traces"], "distinct_nontrivial": res["traces"],
           "rule": "one evaluation = one seeded history of Set/SetWithTTL/Get/Delete/clock advances on a hybrid store (simple or loading) with a scripted secondary store (optionally failing), workers running concurrently, every key read again after everything has settled",
           "gets_validated": res["gets"], "demotions_observed": res["demotions"], "events_validated": res["lines"],
           "model_checking_runs": [{"cfg": "HybridMC.cfg", "states": mc.distinct, "transitions": mc.generated, "wall_s": round(mc.wall, 1)},
                                   {"cfg": "HybridMC_loading.cfg", "states": mcl.distinct, "transitions": mcl.generated, "wall_s": round(mcl.wall, 1)}],
           "violations_of_other_properties_seen": others, "exhaustive": True,
           "samples": [x for x in vlib.read_ndjson_head(tf, 40) if x.get("ev") in ("call", "ret", "sec", "handoff", "secdel")][:12],
           "known_findings_seen": {k: c for k, (w_, c) in v.known.items()}}
    cov.update(builders_stage(work, v, pid))
    rc = v.finish()
    vlib.write_evidence(pid, tier, "model_checking", cov, assumptions, time.time() - t0, len(v.violations))
    return rc
