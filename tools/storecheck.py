"""Generic check of one Store-family property: exhaustive TLC on Store.tla configurations,
TLC behaviours replayed into the real Store under the gate scheduler, free-running and
sequential drivers, every recorded trace validated by TLC (StoreTrace)."""
import json, os, sys, time
import vlib, storelib

KF_KINDS = {
    # violation kind -> known-finding id (matched only if that id is listed open in known_findings.json)
    "set_without_ttl_over_expired_keeps_old_deadline": "D4-set-without-ttl-over-expired",
}


def classify_default(kind, tid, line):
    return KF_KINDS.get(kind)


def run_plan(pid, tier, work, plan):
    t0 = time.time()
    thorough = tier == "thorough"
    if "--replay" in sys.argv:
        rp = sys.argv[sys.argv.index("--replay") + 1]
        if '"ops":[' in open(rp).readline():
            import lincheck
            return lincheck.replay(pid, rp, work)
        return storelib.replay_file(pid, rp, work)
    v = vlib.Verdict(pid, work)
    classify = plan.get("classify", classify_default)
    states = trans = 0
    mcs = []
    for item in plan.get("mc", []):
        cfg, only_thorough = item[0], item[1]
        if only_thorough and not thorough:
            continue
        dl = len(item) > 2 and item[2]
        r = storelib.tlc_mc(work, cfg, expect_ok=True, deadlock=dl, tag="mc_" + cfg.replace(".cfg", ""))
        states += r.distinct
        trans += r.generated
        mcs.append({"cfg": cfg, "states": r.distinct, "transitions": r.generated, "depth": r.depth, "wall_s": round(r.wall, 1)})
    # known model-level findings: configurations of the pinned design that must still violate
    traces = events = snaps = behaviours = 0
    others = {}
    samples = []
    stuck = skipped = 0
    for (simcfg, nq, nt, depth) in plan.get("sims", []):
        tag = simcfg.replace(".cfg", "")
        simdir, n = storelib.tlc_sim(work, simcfg, nt if thorough else nq, depth, tag)
        out = storelib.run_driver(work, "TestVerif_StoreReplay", "replay_" + tag, env={"VERIF_IN": simdir},
                                  timeout=1800)
        tf = os.path.join(out, "store_replay.ndjson")
        res = storelib.validate(work, tf, "replay_" + tag)
        # a hang must reproduce on a second execution of the same schedule
        hang_tids = sorted({x[1] for x in res["viol"] if x[3].startswith("call_did_not_return")})
        if hang_tids:
            redo = work.sub("redo_" + tag)
            for t in hang_tids[:6]:
                os.symlink(os.path.join(simdir, t), os.path.join(redo, t))
            out2 = storelib.run_driver(work, "TestVerif_StoreReplay", "redo_" + tag, env={"VERIF_IN": redo}, timeout=600)
            res2 = storelib.validate(work, os.path.join(out2, "store_replay.ndjson"), "redo_" + tag)
            again = {x[1] for x in res2["viol"] if x[3].startswith("call_did_not_return")}
            res["viol"] = [x for x in res["viol"] if not x[3].startswith("call_did_not_return") or x[1] in again]
        storelib.report(v, work, pid, tf, res, classify, others)
        behaviours += n
        traces += res["traces"]
        events += res["lines"]
        snaps += res["snaps"]
        stuck += res["stuck"]
        skipped += res["skipped"]
        if not samples:
            samples.append({"schedule_from_TLC": vlib.read_ndjson(os.path.join(simdir, sorted(os.listdir(simdir))[0]))[:12]})
            samples.append({"recorded_trace_excerpt": [x for x in vlib.read_ndjson_head(tf, 40) if x.get("ev") != "snap"][:14]})
    for (test, nq, nt, fname, env) in plan.get("drivers", []):
        e = {"VERIF_N": nt if thorough else nq}
        e.update(env or {})
        out = storelib.run_driver(work, test, test, env=e, timeout=1800)
        tf = os.path.join(out, fname)
        res = storelib.validate(work, tf, test)
        storelib.report(v, work, pid, tf, res, classify, others)
        traces += res["traces"]
        events += res["lines"]
        snaps += res["snaps"]
        if len(samples) < 3:
            samples.append({"driver": test, "recorded_trace_excerpt": [x for x in vlib.read_ndjson_head(tf, 30) if x.get("ev") != "snap"][:10]})
    cov = {"states": states, "transitions": trans, "traces_validated_against_impl": traces,
           "evaluations": traces, "distinct_nontrivial": traces,
           "rule": "one evaluation = one execution of the real Store (a TLC-generated schedule replayed under the gate "
                   "scheduler, or one free-running/sequential driver run with its own seed and configuration), recorded "
                   "and validated by TLC; schedules come from distinct random walks of the specification",
           "behaviours_replayed": behaviours, "events_validated": events, "quiescent_snapshots_checked": snaps,
           "model_checking_runs": mcs, "replay_steps_blocked": stuck, "replay_steps_skipped": skipped,
           "violations_of_other_properties_seen": others, "samples": samples, "exhaustive": bool(mcs),
           "known_findings_seen": {k: c for k, (w_, c) in v.known.items()}}
    if plan.get("extra"):
        ex = plan["extra"](work, v, thorough) or {}
        cov["states"] += ex.pop("_states", 0)
        cov["transitions"] += ex.pop("_trans", 0)
        cov["traces_validated_against_impl"] += ex.pop("_traces", 0)
        cov.update(ex)
    if plan.get("api"):
        import apicheck
        ex = apicheck.run(work, v, pid, thorough)
        cov["traces_validated_against_impl"] += ex.pop("_traces", 0)
        cov.update(ex)
    if plan.get("lin"):
        import lincheck
        ex = lincheck.run(work, v, pid, thorough)
        cov["traces_validated_against_impl"] += ex.pop("_traces", 0)
        cov["states"] += ex.pop("_states", 0)
        cov.update(ex)
    rc = v.finish()
    vlib.write_evidence(pid, tier, plan.get("level", "model_checking"), cov, plan.get("assumptions", []) + (
        ["public API layer: sequential programs (plain and loading caches; cost function, doorkeeper, removal listener; every write followed by Wait) through cache.go/builder.go, validated against the sequential observer ApiTrace.tla"] if plan.get("api") else []) + (
        ["hook-free histories: concurrent clients on caches built with the public builder (plain/loading, entry pool, doorkeeper, short TTLs, tiny and ample MaxSize); only calls, results and stamps of one shared atomic counter are recorded; TLC searches a linearization of every per-key history (LinSearch.tla)"] if plan.get("lin") else []), time.time() - t0,
                        len(v.violations))
    return rc
